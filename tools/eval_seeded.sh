#!/bin/bash
# Evaluate seeded changes WITHOUT touching /repo: scratch worktrees of /repo (/tmp/rs) and of /verif at
# a given commit (/tmp/vs-<commit>), with the path dependencies rewritten to the scratch repo.
#   usage: work/eval_seeded.sh <verif-commit> <seed-dir-root> <id> [<id> ...]
commit=$1; root=$2; shift 2
rs=${RS:-/tmp/rs}; vs=/tmp/vs-$commit${VSX:-}
[ -d $rs ] || git -C /repo worktree add -q --detach $rs HEAD
if [ ! -d $vs ]; then
    git -C /verif worktree add -q --detach $vs $commit
    grep -rl '/repo/' $vs/crates/*/Cargo.toml $vs/check | xargs sed -i "s#/repo/#$rs/#g"
fi
cd $vs
git -C $rs checkout -q -- .
for spec in "$@"; do
    # "<id>" (property = prefix of the id) or "<id>:<property>"
    id=${spec%%:*}; prop=${id%%-*}; [ "$spec" != "$id" ] && prop=${spec##*:}
    if ! git -C $rs apply --check $root/$id/patch.diff 2>/dev/null; then echo "$id: patch does not apply"; continue; fi
    git -C $rs apply $root/$id/patch.diff
    VERIF_OUT_DIR=$vs/work/out/$id-$prop ./check $prop --tier quick > $vs/work-$id.log 2>&1
    code=$?
    git -C $rs checkout -q -- .
    sig=$(grep -m3 '^violation: signature=' $vs/work-$id.log | sed 's/violation: signature=//' | tr '\n' ' ')
    case $code in
      1) echo "$id @$commit by $prop: DETECTED ($sig)";;
      0) echo "$id @$commit by $prop: MISSED";;
      *) echo "$id @$commit: harness error (exit $code): $(tail -3 $vs/work-$id.log | tr '\n' ' ')";;
    esac
done
