#!/bin/bash
# usage: mut.sh <prop> <runs> <file> <python-replace-old> <new>
prop=$1; runs=$2; file=$3; old=$4; new=$5
cd /repo
python3 - "$file" "$old" "$new" <<'PY'
import sys
f,old,new=sys.argv[1:4]
s=open(f).read()
assert s.count(old)>=1, "pattern not found"
open(f,'w').write(s.replace(old,new,1))
PY
[ $? -ne 0 ] && { echo "MUTATION FAILED TO APPLY"; git checkout -- .; exit 3; }
cd /verif
if ./check build >/dev/null 2>&1; then
  VERIF_RUNS=$runs ./target/release/adsb-sim check $prop 2>&1 | grep -E "^violation|VIOLATION|^OK|HARNESS" | head -6
else
  echo "BUILD FAILED"
fi
cd /repo; git checkout -- . 
