#!/bin/bash
# confirm a sub-agent delivery: work/confirm.sh <id> (e.g. C14-A); uses worktree /tmp/wt/<prop>
id=$1; prop=${id%%-*}; wt=/tmp/wt/$prop; [ -d /tmp/wt/${prop}r2 ] && wt=/tmp/wt/${prop}r2; [ -d /tmp/wt/${prop}r3 ] && wt=/tmp/wt/${prop}r3; [ -d /tmp/wt/${prop}r4 ] && wt=/tmp/wt/${prop}r4; [ -d /tmp/wt/${prop}r6 ] && wt=/tmp/wt/${prop}r6; d=/tmp/seed/$id
cd $wt || exit 2
git checkout -q -- . ; git clean -fdq -e target
echo "== $id: patch"; cat $d/patch.diff | head -60
git apply --check $d/patch.diff || { echo "PATCH DOES NOT APPLY"; exit 1; }
git apply $d/patch.diff
echo "== $id: test suite with the change"
cargo test --workspace --no-fail-fast --offline 2>&1 | grep -E "^test result|FAILED|panicked|error(\[|:)" | head -20
echo "== $id: demonstration WITH the change (must fail)"
( timeout 600 sh $d/run.sh >/tmp/seed/$id.with.log 2>&1; echo "exit=$?" )
tail -5 /tmp/seed/$id.with.log
git checkout -q -- .
echo "== $id: demonstration WITHOUT the change (must pass)"
( timeout 600 sh $d/run.sh >/tmp/seed/$id.without.log 2>&1; echo "exit=$?" )
tail -3 /tmp/seed/$id.without.log
