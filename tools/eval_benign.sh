#!/bin/bash
# Run quick checks against a property-PRESERVING change in scratch copies (never touches /repo).
#   usage: work/eval_benign.sh <verif-commit> <id> <prop> [<prop> ...]
commit=$1; id=$2; shift 2
rs=${RS:-/tmp/rs}; vs=/tmp/vs-$commit${VSX:-}
[ -d $rs ] || git -C /repo worktree add -q --detach $rs HEAD
if [ ! -d $vs ]; then
    git -C /verif worktree add -q --detach $vs $commit
    grep -rl '/repo/' $vs/crates/*/Cargo.toml $vs/check | xargs sed -i "s#/repo/#$rs/#g"
fi
cd $vs
git -C $rs checkout -q -- .
if ! git -C $rs apply --check /tmp/benign/$id/patch.diff 2>/dev/null; then echo "$id: patch does not apply"; exit 1; fi
git -C $rs apply /tmp/benign/$id/patch.diff
( cd $rs && cargo test --workspace --no-fail-fast --offline 2>&1 | grep -E "^test result" | awk '{p+=$4; f+=$6} END {printf "  suite: %d passed %d failed\n", p, f}' )
for prop in "$@"; do
    VERIF_OUT_DIR=$vs/work/out/benign-$id ./check $prop --tier quick > $vs/work-benign-$id-$prop.log 2>&1
    code=$?
    case $code in
      0) echo "$id / $prop: silent (OK)";;
      1) echo "$id / $prop: ALARM $(grep -m2 '^violation: signature=' $vs/work-benign-$id-$prop.log | tr '\n' ' ')";;
      *) echo "$id / $prop: harness error (exit $code): $(tail -4 $vs/work-benign-$id-$prop.log | tr '\n' ' ')";;
    esac
done
git -C $rs checkout -q -- .
