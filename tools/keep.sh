#!/bin/bash
# keep a confirmed delivery: work/keep.sh <id> "<needs>" ; copies into /verif/seeded/<id>
id=$1; needs=$2; prop=${id%%-*}; d=/tmp/seed/$id; t=/verif/seeded/$id
mkdir -p $t; cp -r $d/* $t/ 2>/dev/null
rm -f $t/out_*.txt $t/*.log
python3 - "$id" "$prop" "$needs" <<'PY'
import json,sys
id,prop,needs=sys.argv[1:4]
json.dump({"id":id,"property":prop,"breaks":prop,"needs_to_manifest":needs,
 "written_by":"independent sub-agent given only the property text and a scratch worktree of /repo",
 "confirmed":"applied in a scratch worktree outside /repo and /verif: existing test suite (cargo test --workspace --no-fail-fast --offline) passes with the change; the demonstration (run.sh) fails with the change and passes without it",
 "run_against_checks":"seeded/run_seeded.sh "+id},open(f"/verif/seeded/{id}/meta.json","w"),indent=1)
PY
ls $t
