//! adsb-sim-alloc: Engine T (C12, C13, C14) against the alloc-only build of the tracker and
//! decoder. Same generator, executor and reference models as `adsb-sim` (the sources are included
//! by path); expiry calls and the clock do not exist in this configuration and are skipped.

// (some helpers of the shared sources are only used by the std build)
#[allow(dead_code, unused_mut, unreachable_code)]
#[path = "../../sim/src/tracker/mod.rs"]
mod tracker;
// Engine R (C19) against the alloc-only decoder: the reader traits are `no_std_io2`'s there, and
// the tail fetch / caching wrapper are compiled differently
#[allow(dead_code, unused_mut, unreachable_code)]
#[path = "../../sim/src/reader.rs"]
mod reader;

use std::path::PathBuf;

use simcore::{harness_error, load_replay, replay_with, run_batch, BatchCfg};

fn main() {
    simcore::install_panic_capture();
    let args: Vec<String> = std::env::args().skip(1).collect();
    match args.first().map(String::as_str) {
        Some("check") if args.get(1).map(String::as_str) == Some("C19") => {
            let tier = args.iter().position(|a| a == "--tier").and_then(|i| args.get(i + 1).cloned()).unwrap_or_else(|| "quick".into());
            simcore::set_deep(tier == "thorough");
            let cfg = BatchCfg::from_env(&tier, 400_000, 8_000_000, 60.0, 400.0);
            std::process::exit(run_batch(&reader::ReaderEngine, &cfg).exit_code);
        }
        Some("check") => {
            let prop: &'static str = match args.get(1).map(String::as_str) {
                Some("C12") => "C12",
                Some("C13") => "C13",
                Some("C14") => "C14",
                other => harness_error(&format!("adsb-sim-alloc: no check for {other:?}")),
            };
            let tier = args.iter().position(|a| a == "--tier").and_then(|i| args.get(i + 1).cloned()).unwrap_or_else(|| "quick".into());
            simcore::set_deep(tier == "thorough");
            let cfg = BatchCfg::from_env(&tier, 20_000, 1_000_000, 60.0, 400.0);
            std::process::exit(run_batch(&tracker::TrackerEngine { prop }, &cfg).exit_code);
        }
        Some("replay") => {
            let path = PathBuf::from(args.get(1).cloned().unwrap_or_default());
            let rf = load_replay(&path);
            if rf.engine == "Ra" {
                std::process::exit(replay_with(&reader::ReaderEngine, &rf, &path));
            }
            let prop: &'static str = match rf.engine.as_str() {
                "T12a" => "C12",
                "T13a" => "C13",
                "T14a" => "C14",
                other => harness_error(&format!("adsb-sim-alloc: unknown engine {other}")),
            };
            std::process::exit(replay_with(&tracker::TrackerEngine { prop }, &rf, &path));
        }
        _ => harness_error("usage: adsb-sim-alloc check <C12|C13|C14> [--tier t] | replay <file>"),
    }
}
