//! `conc19 <threads> <iterations> <hex frame>...`
//!
//! Decodes the given byte strings once on one thread (the reference: what Engine R has checked
//! against the slice decoder), then on `threads` threads at the same time, each thread walking
//! round the list from its own starting point, alternately from the slice and from a reader.
//! Every concurrent result must equal the reference: decoding is a pure function of the bytes,
//! whatever else is being decoded at the same moment. Run under Miri, where the seed decides
//! every preemption; a mismatch is printed as `MISMATCH ...` and the exit status is 1.

use std::io::Cursor;
use std::sync::Arc;

use adsb_deku::Frame;

fn unhex(s: &str) -> Vec<u8> {
    (0..s.len() / 2).map(|i| u8::from_str_radix(&s[2 * i..2 * i + 2], 16).unwrap_or(0)).collect()
}

/// the decoded frame (every field, checksum included) or the error, as text
type Res = String;

fn decode(bytes: &[u8], via_reader: bool) -> Res {
    let r = if via_reader { Frame::from_reader(Cursor::new(bytes)) } else { Frame::from_bytes(bytes) };
    match r {
        Ok(f) => format!("Ok crc={:06x} {f:?}", f.crc),
        Err(e) => format!("Err {e:?}"),
    }
}

fn main() {
    let args: Vec<String> = std::env::args().skip(1).collect();
    let threads: usize = args.first().and_then(|s| s.parse().ok()).unwrap_or(2);
    let iters: usize = args.get(1).and_then(|s| s.parse().ok()).unwrap_or(10);
    let frames: Vec<Vec<u8>> = args.iter().skip(2).map(|s| unhex(s)).collect();
    if frames.is_empty() {
        eprintln!("usage: conc19 <threads> <iterations> <hex frame>...");
        std::process::exit(2);
    }
    let refs: Vec<Res> = frames.iter().map(|f| decode(f, false)).collect();
    for (f, r) in frames.iter().zip(&refs) {
        if decode(f, true) != *r {
            // Engine R's subject, not this check's
            println!("SEQUENTIAL-MISMATCH");
            std::process::exit(3);
        }
    }
    let frames = Arc::new(frames);
    let refs = Arc::new(refs);
    let hs: Vec<_> = (0..threads)
        .map(|t| {
            let (frames, refs) = (frames.clone(), refs.clone());
            std::thread::spawn(move || {
                for i in 0..iters {
                    let k = (t + i) % frames.len();
                    let got = decode(&frames[k], (t + i / frames.len()) % 2 == 1);
                    if got != refs[k] {
                        let hex: String = frames[k].iter().map(|b| format!("{b:02x}")).collect();
                        return Some(format!("MISMATCH thread={t} iteration={i} frame={hex}\n got : {got}\n want: {}", refs[k]));
                    }
                }
                None
            })
        })
        .collect();
    let mut bad = false;
    for h in hs {
        if let Some(m) = h.join().unwrap() {
            println!("{m}");
            bad = true;
        }
    }
    if bad {
        std::process::exit(1);
    }
    println!("CONCURRENT-OK threads={threads} iterations={iters} frames={}", frames.len());
}
