//! `adsb_verif_seams`: simulator-owned replacements for the three sources of nondeterminism of
//! the `radar` / `1090` clients — the TCP socket, the operator-event source and time.
//! Linked only through /verif's shadow manifest, under `--cfg adsb_deku_verif`.
//!
//! Every blocking point of the client is a call into this crate; each call advances a virtual
//! clock (microseconds) according to the scenario script and never sleeps. The scenario is read
//! from the file named by `ADSB_VERIF_SCENARIO`; every seam call is logged to the file named by
//! `ADSB_VERIF_LOG` with a global sequence number and the virtual time.

use std::io;
use std::sync::atomic::{AtomicU64, Ordering};
use std::sync::Mutex;
use std::time::{Duration, SystemTime};

use simcore::kproto::{KChild, KEv, KOutcome};

pub const BASE_EPOCH_S: u64 = 1_700_000_000;
/// what the monotonic clocks read at virtual time 0
pub const MONO_BASE_S: u64 = 100_000;

/// The virtual time, readable without the simulator lock (the clock seam below is called from
/// anywhere, also from inside a seam call).
static NOW_US: AtomicU64 = AtomicU64::new(0);

/// Set by every write to the terminal (fd 1); cleared when the frame marker is emitted.
static STDOUT_DIRTY: std::sync::atomic::AtomicBool = std::sync::atomic::AtomicBool::new(false);

/// Output seam: the client's writes to the terminal pass through here (std's `Stdout` calls the C
/// library's `write` / `writev`; as with `clock_gettime` the definition in the executable wins).
/// Nothing is changed or delayed; the seam only learns that something was drawn, so that the
/// frame marker can follow every draw whatever the shape of the client's main loop.
#[no_mangle]
pub unsafe extern "C" fn write(fd: libc::c_int, buf: *const libc::c_void, n: libc::size_t) -> libc::ssize_t {
    if fd == 1 && n > 0 {
        STDOUT_DIRTY.store(true, Ordering::SeqCst);
    }
    libc::syscall(libc::SYS_write, fd, buf, n) as libc::ssize_t
}

#[no_mangle]
pub unsafe extern "C" fn writev(fd: libc::c_int, iov: *const libc::iovec, cnt: libc::c_int) -> libc::ssize_t {
    if fd == 1 && cnt > 0 {
        STDOUT_DIRTY.store(true, Ordering::SeqCst);
    }
    libc::syscall(libc::SYS_writev, fd, iov, cnt) as libc::ssize_t
}

static WINSZ_QUERIES: AtomicU64 = AtomicU64::new(0);

/// a size query of the client is about to happen: let a scripted window change take effect first
unsafe fn before_size_query() {
    let n = WINSZ_QUERIES.fetch_add(1, Ordering::SeqCst);
    if let Ok(mut g) = SIM.try_lock() {
        if let Some(sim) = g.as_mut() {
            for (at, w, h) in sim.sc.winsz_ops.clone() {
                if at == n {
                    let ws = libc::winsize { ws_row: h, ws_col: w, ws_xpixel: 0, ws_ypixel: 0 };
                    libc::syscall(libc::SYS_ioctl, 1, libc::TIOCSWINSZ, &ws as *const libc::winsize);
                    sim.log(&format!("WINSZ query={n} now {w}x{h}"));
                }
            }
        }
    }
}

/// Terminal-size seam. crossterm opens `/dev/tty` for every size query (and asks the kernel through
/// rustix, which makes raw system calls, so `ioctl` itself cannot be interposed); std opens files
/// through the C library's `open64`, and as with `clock_gettime` the definition in the executable
/// wins. Opens of `/dev/tty` are counted as size queries, and a scripted change of the window size
/// takes effect just before a given query — the window can change between any two system calls,
/// not only between two events. Everything else is passed through unchanged (`open` is variadic
/// in C; its third argument arrives in the same register either way).
#[no_mangle]
pub unsafe extern "C" fn open64(path: *const libc::c_char, flags: libc::c_int, mode: libc::mode_t) -> libc::c_int {
    if !path.is_null() && libc::strcmp(path, c"/dev/tty".as_ptr()) == 0 {
        before_size_query();
    }
    libc::syscall(libc::SYS_openat, libc::AT_FDCWD, path, flags, mode as libc::c_uint) as libc::c_int
}

#[no_mangle]
pub unsafe extern "C" fn open(path: *const libc::c_char, flags: libc::c_int, mode: libc::mode_t) -> libc::c_int {
    open64(path, flags, mode)
}

/// Clock seam of the whole child process: every `Instant::now()` / `SystemTime::now()` of the
/// client and of its dependencies (std calls the C library's `clock_gettime`; this definition in
/// the executable takes precedence over the one in libc.so) reads the simulator's virtual clock.
/// A timer the client adds with `std::time` is therefore driven by the scenario like every other
/// deadline, and no run depends on how long the host took. CPU-time clocks are passed through.
#[no_mangle]
pub unsafe extern "C" fn clock_gettime(clk: libc::clockid_t, ts: *mut libc::timespec) -> libc::c_int {
    let us = NOW_US.load(Ordering::SeqCst);
    let base_s = match clk {
        libc::CLOCK_REALTIME | libc::CLOCK_REALTIME_COARSE | libc::CLOCK_TAI => BASE_EPOCH_S,
        libc::CLOCK_MONOTONIC | libc::CLOCK_MONOTONIC_RAW | libc::CLOCK_MONOTONIC_COARSE | libc::CLOCK_BOOTTIME => MONO_BASE_S,
        _ => return libc::syscall(libc::SYS_clock_gettime, clk, ts) as libc::c_int,
    };
    if ts.is_null() {
        return -1;
    }
    (*ts).tv_sec = (base_s + us / 1_000_000) as libc::time_t;
    (*ts).tv_nsec = ((us % 1_000_000) * 1_000) as libc::c_long;
    0
}

struct Session {
    idx: usize,
    start_us: u64,
    /// next segment to deliver and offset inside it
    seg: usize,
    off: usize,
    reads: u64,
    eintr_done: Vec<u64>,
    rst_sent: bool,
    read_timeout_us: Option<u64>,
    delivered: u64,
    eof_returns: u32,
    idle_timeouts: u32,
    /// copies of the current (repeated) segment already delivered in full
    rep_done: u32,
}

struct Sim {
    sc: KChild,
    segs: Vec<Vec<(u64, Vec<u8>)>>,
    /// how often each segment arrives in a row
    reps: Vec<Vec<u32>>,
    now_us: u64,
    seq: u64,
    steps: u64,
    next_connect: usize,
    next_event: usize,
    iter: u64,
    coalesce_i: usize,
    sessions: Vec<Session>,
    log_fd: i32,
    log_buf: String,
    frames: u64,
    gpsd_next: usize,
    gpsd_lost: bool,
    outage_used: u32,
}

static SIM: Mutex<Option<Sim>> = Mutex::new(None);

// ------------------------------------------------------------------------------------------------
// radar's gpsd thread. It is the only second thread of the clients, and the simulator decides
// when it runs: the thread parks in every call it makes on its connection (connect, read), and is
// released only at a main-loop iteration boundary (the poll that follows a draw), where the main
// thread waits until the gpsd thread has parked again. So exactly one of the two threads runs at
// any time, what the gpsd thread stores (the receiver position) is in place before the main loop
// continues, and a run is a function of the scenario alone.

#[derive(Clone, Copy, PartialEq, Debug)]
enum GState {
    NotStarted,
    Running,
    ParkedConnect,
    ParkedRead,
    Dead,
}

struct Gpsd {
    state: GState,
    /// the gpsd thread may proceed (set by the main thread, cleared by the gpsd thread)
    go: bool,
    connect_ok: bool,
    inbox: Vec<u8>,
}

static GPSD: Mutex<Gpsd> = Mutex::new(Gpsd { state: GState::NotStarted, go: false, connect_ok: false, inbox: Vec::new() });
static GPSD_CV: std::sync::Condvar = std::sync::Condvar::new();
static MAIN_THREAD: Mutex<Option<std::thread::ThreadId>> = Mutex::new(None);

fn on_main_thread() -> bool {
    let g = MAIN_THREAD.lock().unwrap_or_else(|e| e.into_inner());
    match *g {
        Some(id) => id == std::thread::current().id(),
        None => true,
    }
}

/// gpsd thread: park in `kind`, wait to be released by the main thread
fn gpsd_park(kind: GState) -> std::sync::MutexGuard<'static, Gpsd> {
    let mut g = GPSD.lock().unwrap_or_else(|e| e.into_inner());
    g.state = kind;
    g.go = false;
    GPSD_CV.notify_all();
    while !g.go {
        g = GPSD_CV.wait(g).unwrap_or_else(|e| e.into_inner());
    }
    g.go = false;
    g.state = GState::Running;
    g
}

impl Sim {
    /// main thread, at an iteration boundary: let the gpsd thread take what is due and wait until
    /// it is parked again
    fn gpsd_handoff(&mut self) {
        let Some(script) = self.sc.gpsd.clone() else { return };
        if self.gpsd_lost || !self.sessions.iter().any(|s| s.reads > 0) {
            // radar starts the thread after the first connection and before its first read
            return;
        }
        let mut g = GPSD.lock().unwrap_or_else(|e| e.into_inner());
        loop {
            // wait (real time, bounded) for the thread to arrive at its next call
            let mut waited = 0;
            while matches!(g.state, GState::NotStarted | GState::Running) {
                let (ng, to) = GPSD_CV.wait_timeout(g, Duration::from_millis(100)).unwrap_or_else(|e| e.into_inner());
                g = ng;
                if to.timed_out() {
                    waited += 1;
                    if waited > 100 {
                        // no gpsd thread (radar run without --gpsd, or the thread died in a call of
                        // its own): nothing to schedule any more
                        self.gpsd_lost = true;
                        drop(g);
                        self.log("GPSD thread-lost");
                        return;
                    }
                }
            }
            match g.state {
                GState::ParkedConnect => {
                    g.connect_ok = !script.refuse;
                    g.go = true;
                    GPSD_CV.notify_all();
                    drop(g);
                    self.log(if script.refuse { "GPSD connect refuse" } else { "GPSD connect accept" });
                    g = GPSD.lock().unwrap_or_else(|e| e.into_inner());
                    // (the thread cannot be ParkedConnect again: wait for its next state)
                    while g.go {
                        g = GPSD_CV.wait(g).unwrap_or_else(|e| e.into_inner());
                    }
                }
                GState::ParkedRead => {
                    let mut n = 0;
                    let mut fix = None;
                    while let Some(l) = script.lines.get(self.gpsd_next) {
                        if l.at_us > self.now_us {
                            break;
                        }
                        g.inbox.extend_from_slice(l.text.as_bytes());
                        g.inbox.extend_from_slice(b"\r\n");
                        if l.fix.is_some() {
                            fix = l.fix;
                        }
                        self.gpsd_next += 1;
                        n += 1;
                    }
                    if n == 0 {
                        return;
                    }
                    g.go = true;
                    GPSD_CV.notify_all();
                    drop(g);
                    match fix {
                        Some((la, lo)) => self.log(&format!("GPSD lines={n} fix={la},{lo}")),
                        None => self.log(&format!("GPSD lines={n}")),
                    }
                    g = GPSD.lock().unwrap_or_else(|e| e.into_inner());
                    while g.go {
                        g = GPSD_CV.wait(g).unwrap_or_else(|e| e.into_inner());
                    }
                }
                GState::Dead => return,
                GState::NotStarted | GState::Running => {}
            }
        }
    }
}

extern "C" fn flush_at_exit() {
    let g = match SIM.try_lock() {
        Ok(g) => Some(g),
        Err(std::sync::TryLockError::Poisoned(p)) => Some(p.into_inner()),
        Err(std::sync::TryLockError::WouldBlock) => None,
    };
    if let Some(mut g) = g {
        if let Some(sim) = g.as_mut() {
            sim.flush_log();
        }
    }
}

fn unhex(s: &str) -> Vec<u8> {
    (0..s.len() / 2).map(|i| u8::from_str_radix(&s[2 * i..2 * i + 2], 16).unwrap_or(0)).collect()
}

fn with_sim<T>(f: impl FnOnce(&mut Sim) -> T) -> T {
    let mut g = SIM.lock().unwrap_or_else(|e| e.into_inner());
    if g.is_none() {
        let path = std::env::var("ADSB_VERIF_SCENARIO").expect("ADSB_VERIF_SCENARIO not set");
        let text = std::fs::read_to_string(&path).expect("cannot read scenario");
        let sc: KChild = serde_json::from_str(&text).expect("scenario does not parse");
        let log_fd = match std::env::var("ADSB_VERIF_LOG") {
            Ok(p) => {
                let c = std::ffi::CString::new(p).unwrap();
                unsafe { libc::open(c.as_ptr(), libc::O_WRONLY | libc::O_CREAT | libc::O_APPEND, 0o644) }
            }
            Err(_) => -1,
        };
        let segs = sc.connects.iter().map(|c| c.segments.iter().map(|s| (s.at_us, unhex(&s.hex))).collect()).collect();
        let reps = sc.connects.iter().map(|c| c.segments.iter().map(|s| s.repeat.max(1)).collect()).collect();
        let sim = Sim {
            sc,
            segs,
            reps,
            now_us: 0,
            seq: 0,
            steps: 0,
            next_connect: 0,
            next_event: 0,
            iter: 0,
            coalesce_i: 0,
            sessions: vec![],
            log_fd,
            log_buf: String::with_capacity(16 * 1024),
            frames: 0,
            gpsd_next: 0,
            gpsd_lost: false,
            outage_used: 0,
        };
        *MAIN_THREAD.lock().unwrap_or_else(|e| e.into_inner()) = Some(std::thread::current().id());
        // the log is buffered; whatever way the process ends normally (return from main, panic
        // -> exit 101, process::exit), the rest is written out
        unsafe {
            libc::atexit(flush_at_exit);
        }
        sim.publish_clock();
        *g = Some(sim);
    }
    f(g.as_mut().unwrap())
}

impl Sim {
    fn publish_clock(&self) {
        NOW_US.store(self.now_us, Ordering::SeqCst);
        rsadsb_common::verif_clock::set(SystemTime::UNIX_EPOCH + Duration::from_secs(BASE_EPOCH_S) + Duration::from_micros(self.now_us));
    }

    fn advance_to(&mut self, t: u64) {
        if t > self.now_us {
            self.now_us = t;
            self.publish_clock();
        }
    }

    fn log(&mut self, what: &str) {
        use std::fmt::Write;
        self.seq += 1;
        if self.log_fd >= 0 {
            let _ = writeln!(self.log_buf, "{} {} {}", self.seq, self.now_us, what);
            if self.log_buf.len() > 12 * 1024 {
                self.flush_log();
            }
        }
    }

    fn flush_log(&mut self) {
        if self.log_fd >= 0 && !self.log_buf.is_empty() {
            unsafe {
                libc::write(self.log_fd, self.log_buf.as_ptr().cast(), self.log_buf.len());
            }
            self.log_buf.clear();
        }
    }

    fn step(&mut self) {
        self.steps += 1;
        if self.steps > self.sc.step_budget.max(1) {
            self.log("BUDGET");
            self.flush_log();
            // a client that keeps calling without making progress: reported as a hang
            unsafe { libc::_exit(3) }
        }
    }

    fn feed_exhausted(&self) -> bool {
        self.next_connect >= self.sc.connects.len() && self.next_event >= self.sc.events.len()
    }
}

/// Harness stop: the scenario has nothing left to deliver and the client would now wait forever.
fn harness_stop(sim: &mut Sim, why: &str) -> ! {
    sim.log(&format!("STOP {why} events_pending={}", sim.sc.events.len() - sim.next_event.min(sim.sc.events.len())));
    sim.flush_log();
    // flush std's stdout buffer the normal way
    std::process::exit(0)
}

pub mod net {
    use std::io::{self, Read, Write};
    use std::net::{SocketAddr, ToSocketAddrs};
    use std::time::Duration;

    use super::{harness_stop, with_sim, KOutcome, Session};

    /// Simulated `std::net::TcpStream` (only the operations the clients use).
    #[derive(Debug)]
    pub struct TcpStream {
        id: usize,
    }

    /// the connection of radar's gpsd thread
    const GPSD_ID: usize = usize::MAX;

    impl Drop for TcpStream {
        fn drop(&mut self) {
            if self.id == GPSD_ID {
                // the gpsd thread is done with its connection (it returned, or it is unwinding
                // from a panic of its own): nothing is left to schedule
                let mut g = super::GPSD.lock().unwrap_or_else(|e| e.into_inner());
                g.state = super::GState::Dead;
                g.go = false;
                super::GPSD_CV.notify_all();
            }
        }
    }

    fn do_connect(timeout: Option<Duration>) -> io::Result<TcpStream> {
        with_sim(|sim| {
            sim.step();
            let i = sim.next_connect;
            if i >= sim.sc.connects.len() {
                if sim.next_event >= sim.sc.events.len() {
                    // nothing will ever happen again
                    harness_stop(sim, "connect-with-nothing-left");
                }
                sim.log("CONNECT exhausted-refuse");
                let t = sim.now_us + 1_000;
                sim.advance_to(t);
                return Err(io::Error::new(io::ErrorKind::ConnectionRefused, "simulated: connection refused"));
            }
            if let Some((at, n)) = sim.sc.outage {
                if i == at && sim.outage_used < n {
                    sim.outage_used += 1;
                    let t = sim.now_us + 1_000;
                    sim.advance_to(t);
                    if sim.outage_used == 1 || sim.outage_used == n {
                        sim.log(&format!("CONNECT refuse outage attempt {} of {n}", sim.outage_used));
                    }
                    return Err(io::Error::new(io::ErrorKind::ConnectionRefused, "simulated: connection refused"));
                }
            }
            sim.next_connect += 1;
            for (at, path, what) in sim.sc.file_ops.clone() {
                if at == i {
                    let r = match what.as_str() {
                        "delete" => std::fs::remove_file(&path),
                        "garble" => std::fs::write(&path, b"\xff\xfe,,\"\n1,2\n\"icao\",3\n"),
                        _ => std::fs::read(&path).and_then(|b| std::fs::write(&path, &b[..b.len() - b.len() / 3])),
                    };
                    sim.log(&format!("FILE {what} {path} {}", if r.is_ok() { "ok" } else { "failed" }));
                }
            }
            match sim.sc.connects[i].outcome {
                KOutcome::Refuse => {
                    let t = sim.now_us + 1_000;
                    sim.advance_to(t);
                    sim.log("CONNECT refuse");
                    Err(io::Error::new(io::ErrorKind::ConnectionRefused, "simulated: connection refused"))
                }
                KOutcome::Fail(errno) => {
                    let t = sim.now_us + 1_000;
                    sim.advance_to(t);
                    sim.log(&format!("CONNECT fail errno={errno}"));
                    Err(io::Error::from_raw_os_error(errno))
                }
                KOutcome::Timeout => {
                    let d = timeout.map(|d| d.as_micros() as u64).unwrap_or(127_000_000);
                    let t = sim.now_us + d;
                    sim.advance_to(t);
                    sim.log("CONNECT timeout");
                    Err(io::Error::new(io::ErrorKind::TimedOut, "simulated: connection timed out"))
                }
                KOutcome::Accept => {
                    let t = sim.now_us + 500;
                    sim.advance_to(t);
                    let id = sim.sessions.len();
                    sim.sessions.push(Session { idx: i, start_us: sim.now_us, seg: 0, off: 0, reads: 0, eintr_done: vec![], rst_sent: false, read_timeout_us: None, delivered: 0, eof_returns: 0, idle_timeouts: 0, rep_done: 0 });
                    sim.log(&format!("CONNECT accept session={id}"));
                    Ok(TcpStream { id })
                }
            }
        })
    }

    impl TcpStream {
        pub fn connect<A: ToSocketAddrs>(_addr: A) -> io::Result<TcpStream> {
            if !super::on_main_thread() {
                // radar's gpsd thread
                let mut g = super::gpsd_park(super::GState::ParkedConnect);
                return if g.connect_ok {
                    Ok(TcpStream { id: GPSD_ID })
                } else {
                    g.state = super::GState::Dead;
                    super::GPSD_CV.notify_all();
                    Err(io::Error::new(io::ErrorKind::ConnectionRefused, "simulated: gpsd connection refused"))
                };
            }
            do_connect(None)
        }

        pub fn connect_timeout(_addr: &SocketAddr, timeout: Duration) -> io::Result<TcpStream> {
            do_connect(Some(timeout))
        }

        pub fn set_read_timeout(&self, dur: Option<Duration>) -> io::Result<()> {
            if self.id == GPSD_ID {
                return Ok(());
            }
            with_sim(|sim| {
                sim.sessions[self.id].read_timeout_us = dur.map(|d| d.as_micros() as u64);
                Ok(())
            })
        }

        fn sim_read(&self, buf: &mut [u8]) -> io::Result<usize> {
            if self.id == GPSD_ID {
                if buf.is_empty() {
                    return Ok(0);
                }
                let mut g = super::GPSD.lock().unwrap_or_else(|e| e.into_inner());
                if g.inbox.is_empty() {
                    drop(g);
                    // nothing buffered: park until the main thread hands lines over (the daemon
                    // never closes the connection)
                    g = super::gpsd_park(super::GState::ParkedRead);
                }
                let n = g.inbox.len().min(buf.len());
                buf[..n].copy_from_slice(&g.inbox[..n]);
                g.inbox.drain(..n);
                return Ok(n);
            }
            with_sim(|sim| {
                sim.step();
                    let sid = self.id;
                let ci = sim.sessions[sid].idx;
                let call = sim.sessions[sid].reads;
                // transient error injected on this read call (once)
                if sim.sc.connects[ci].eintr_reads.contains(&call) && !sim.sessions[sid].eintr_done.contains(&call) {
                    sim.sessions[sid].eintr_done.push(call);
                    sim.log("RD eintr");
                    return Err(io::Error::new(io::ErrorKind::Interrupted, "simulated EINTR"));
                }
                sim.sessions[sid].reads += 1;
                if buf.is_empty() {
                    return Ok(0);
                }
                let start = sim.sessions[sid].start_us;
                let close_abs = sim.sc.connects[ci].close_at_us.map(|c| start + c);
                let deadline = sim.sessions[sid].read_timeout_us.map(|t| sim.now_us + t);
                loop {
                    // bytes that have arrived by now (and before the close)
                    let nsegs = sim.segs[ci].len();
                    let mut k = sim.sessions[sid].seg;
                    let arrived = |sim: &super::Sim, k: usize| -> bool {
                        k < nsegs && start + sim.segs[ci][k].0 <= sim.now_us && close_abs.map(|c| start + sim.segs[ci][k].0 <= c).unwrap_or(true)
                    };
                    if arrived(sim, k) {
                        let mut n = 0usize;
                        let mut segs_used = 0;
                        let mut more_waiting = false;
                        loop {
                            let off = sim.sessions[sid].off;
                            let seg = &sim.segs[ci][k].1;
                            let take = (seg.len() - off).min(buf.len() - n);
                            buf[n..n + take].copy_from_slice(&seg[off..off + take]);
                            n += take;
                            segs_used += 1;
                            if off + take == seg.len() {
                                sim.sessions[sid].off = 0;
                                if sim.sessions[sid].rep_done + 1 < sim.reps[ci][k] {
                                    // the same bytes once more
                                    sim.sessions[sid].rep_done += 1;
                                } else {
                                    sim.sessions[sid].rep_done = 0;
                                    k += 1;
                                    sim.sessions[sid].seg = k;
                                }
                            } else {
                                sim.sessions[sid].off = off + take;
                                break;
                            }
                            if n == buf.len() || !arrived(sim, k) {
                                break;
                            }
                            // another segment is already in the socket buffer: one read may
                            // return both (kernel coalescing) or not — scheduler decision
                            more_waiting = true;
                            let co = if sim.sc.coalesce.is_empty() {
                                true
                            } else {
                                let c = sim.sc.coalesce[sim.coalesce_i % sim.sc.coalesce.len()];
                                sim.coalesce_i += 1;
                                c
                            };
                            if !co {
                                break;
                            }
                        }
                        let _ = more_waiting;
                        sim.sessions[sid].delivered += n as u64;
                        let total = sim.sessions[sid].delivered;
                        sim.log(&format!("RD n={n} segs={segs_used} session={sid} total={total}"));
                        return Ok(n);
                    }
                    // nothing readable: closed?
                    if let Some(c) = close_abs {
                        if c <= sim.now_us {
                            if sim.sc.connects[ci].rst && !sim.sessions[sid].rst_sent {
                                sim.sessions[sid].rst_sent = true;
                                sim.log("RD rst");
                                return Err(io::Error::new(io::ErrorKind::ConnectionReset, "simulated: connection reset by peer"));
                            }
                            sim.sessions[sid].eof_returns += 1;
                            if sim.sessions[sid].eof_returns > 3 && sim.feed_exhausted() {
                                // a client that keeps reading a closed socket forever (1090 does by
                                // design): stop the run here
                                harness_stop(sim, "eof-loop");
                            }
                            sim.log("RD eof");
                            return Ok(0);
                        }
                    }
                    // wait for the next arrival or the close, bounded by the read timeout
                    let next_seg = if k < nsegs { Some(start + sim.segs[ci][k].0) } else { None };
                    let next = match (next_seg, close_abs) {
                        (Some(a), Some(c)) => Some(a.min(c)),
                        (Some(a), None) => Some(a),
                        (None, c) => c,
                    };
                    match (next, deadline) {
                        (Some(t), Some(d)) if t <= d => sim.advance_to(t),
                        (Some(t), None) => sim.advance_to(t),
                        (nx, Some(d)) => {
                            sim.advance_to(d);
                            if nx.is_none() && sim.feed_exhausted() {
                                // nothing will ever arrive or happen again: a client that just
                                // keeps waiting (1090 does by design) is stopped here
                                sim.sessions[sid].idle_timeouts += 1;
                                if sim.sessions[sid].idle_timeouts > 25 {
                                    harness_stop(sim, "idle-timeouts");
                                }
                            }
                            sim.log("RD wouldblock");
                            // what a socket with SO_RCVTIMEO yields on Linux
                            return Err(io::Error::new(io::ErrorKind::WouldBlock, "simulated: read timed out"));
                        }
                        (None, None) => {
                            // blocking read on a connection that will never deliver or close
                            harness_stop(sim, "blocked-read");
                        }
                    }
                }
            })
        }
    }

    impl Read for TcpStream {
        fn read(&mut self, buf: &mut [u8]) -> io::Result<usize> {
            self.sim_read(buf)
        }
    }

    impl Read for &TcpStream {
        fn read(&mut self, buf: &mut [u8]) -> io::Result<usize> {
            self.sim_read(buf)
        }
    }

    impl Write for TcpStream {
        fn write(&mut self, buf: &[u8]) -> io::Result<usize> {
            Ok(buf.len())
        }
        fn flush(&mut self) -> io::Result<()> {
            Ok(())
        }
    }

    impl Write for &TcpStream {
        fn write(&mut self, buf: &[u8]) -> io::Result<usize> {
            Ok(buf.len())
        }
        fn flush(&mut self) -> io::Result<()> {
            Ok(())
        }
    }
}

pub mod event {
    use std::io;
    use std::time::Duration;

    use crossterm::event::{Event, KeyCode, KeyEvent, KeyModifiers, MouseButton, MouseEvent, MouseEventKind};

    use super::{with_sim, KEv};

    fn keycode(code: &str) -> KeyCode {
        if let Some(c) = code.strip_prefix("c:") {
            return KeyCode::Char(c.chars().next().unwrap_or(' '));
        }
        if let Some(n) = code.strip_prefix('F') {
            if let Ok(n) = n.parse::<u8>() {
                return KeyCode::F(n);
            }
        }
        match code {
            "Tab" => KeyCode::Tab,
            "BackTab" => KeyCode::BackTab,
            "Enter" => KeyCode::Enter,
            "Up" => KeyCode::Up,
            "Down" => KeyCode::Down,
            "Left" => KeyCode::Left,
            "Right" => KeyCode::Right,
            "Esc" => KeyCode::Esc,
            "Backspace" => KeyCode::Backspace,
            "Home" => KeyCode::Home,
            "End" => KeyCode::End,
            "PageUp" => KeyCode::PageUp,
            "PageDown" => KeyCode::PageDown,
            "Delete" => KeyCode::Delete,
            "Insert" => KeyCode::Insert,
            _ => KeyCode::Null,
        }
    }

    fn convert(ev: &KEv) -> Event {
        match ev {
            KEv::Key { code, ctrl, shift, alt } => {
                let mut m = KeyModifiers::NONE;
                if *ctrl {
                    m |= KeyModifiers::CONTROL;
                }
                if *shift {
                    m |= KeyModifiers::SHIFT;
                }
                if *alt {
                    m |= KeyModifiers::ALT;
                }
                Event::Key(KeyEvent::new(keycode(code), m))
            }
            KEv::Mouse { kind, col, row } => {
                let k = match kind.as_str() {
                    "DownLeft" => MouseEventKind::Down(MouseButton::Left),
                    "UpLeft" => MouseEventKind::Up(MouseButton::Left),
                    "DragLeft" => MouseEventKind::Drag(MouseButton::Left),
                    "DownRight" => MouseEventKind::Down(MouseButton::Right),
                    "UpRight" => MouseEventKind::Up(MouseButton::Right),
                    "DragRight" => MouseEventKind::Drag(MouseButton::Right),
                    "DownMiddle" => MouseEventKind::Down(MouseButton::Middle),
                    "ScrollUp" => MouseEventKind::ScrollUp,
                    "ScrollDown" => MouseEventKind::ScrollDown,
                    "ScrollLeft" => MouseEventKind::ScrollLeft,
                    "ScrollRight" => MouseEventKind::ScrollRight,
                    _ => MouseEventKind::Moved,
                };
                Event::Mouse(MouseEvent { kind: k, column: *col, row: *row, modifiers: KeyModifiers::NONE })
            }
            KEv::Resize { w, h } => Event::Resize(*w, *h),
            KEv::FocusGained => Event::FocusGained,
            KEv::FocusLost => Event::FocusLost,
            KEv::Paste { text } => Event::Paste(text.clone()),
        }
    }

    /// Simulated `crossterm::event::poll`: jumps the virtual clock to the next scripted operator
    /// event if it falls inside `timeout`, else advances by `timeout`.
    pub fn poll(timeout: Duration) -> io::Result<bool> {
        with_sim(|sim| {
            sim.step();
            if super::STDOUT_DIRTY.swap(false, std::sync::atomic::Ordering::SeqCst) {
                // the client has written to the terminal since the last marker (a draw, flushed by
                // ratatui before it polls): in-band frame marker
                sim.frames += 1;
                let marker = format!("\x1b]777;frame;{};{}\x07", sim.frames, sim.now_us);
                unsafe {
                    // (not through the output seam: the marker is not a draw)
                    libc::syscall(libc::SYS_write, 1, marker.as_ptr(), marker.len());
                }
                let total: u64 = sim.sessions.iter().map(|s| s.delivered).sum();
                sim.log(&format!("FRAME {} total={}", sim.frames, total));
                sim.gpsd_handoff();
                // slow terminal / slow host: data piles up in the socket meanwhile
                if !sim.sc.proc_delay_us.is_empty() {
                    let d = sim.sc.proc_delay_us[(sim.iter as usize) % sim.sc.proc_delay_us.len()];
                    let t = sim.now_us + d;
                    sim.advance_to(t);
                }
                sim.iter += 1;
            }
            let d = timeout.as_micros() as u64;
            match sim.sc.events.get(sim.next_event).map(|e| e.at_us) {
                Some(t) if t <= sim.now_us + d => {
                    sim.advance_to(t);
                    sim.log("POLL 1");
                    Ok(true)
                }
                _ => {
                    let t = sim.now_us + d;
                    sim.advance_to(t);
                    sim.log("POLL 0");
                    Ok(false)
                }
            }
        })
    }

    /// Simulated `crossterm::event::read`.
    pub fn read() -> io::Result<Event> {
        with_sim(|sim| {
            sim.step();
            let Some(e) = sim.sc.events.get(sim.next_event).cloned() else {
                // a blocking read with nothing scripted would wait forever
                super::harness_stop(sim, "blocked-event-read");
            };
            sim.next_event += 1;
            sim.advance_to(e.at_us);
            if !sim.sc.ev_delay_us.is_empty() {
                // handling the event takes the client some time
                let d = sim.sc.ev_delay_us[(sim.next_event - 1) % sim.sc.ev_delay_us.len()];
                let t = sim.now_us + d;
                sim.advance_to(t);
            }
            if let KEv::Resize { w, h } = &e.ev {
                // the terminal really changes size, at a deterministic point
                let ws = libc::winsize { ws_row: *h, ws_col: *w, ws_xpixel: 0, ws_ypixel: 0 };
                unsafe {
                    libc::syscall(libc::SYS_ioctl, 1, libc::TIOCSWINSZ, &ws as *const libc::winsize);
                }
            }
            sim.log(&format!("EV {}", serde_json::to_string(&e.ev).unwrap_or_default()));
            Ok(convert(&e.ev))
        })
    }
}

#[allow(dead_code)]
fn _unused(_: io::Error) {}
