//! Independent Mode S / ADS-B *encoder* used to build simulator workloads.
//! Nothing here is shared with /repo: own bitwise CRC-24, own CPR encoder with the analytic
//! NL function, own field packers. Frames are returned as raw bytes (7 or 14).

pub const POLY: u32 = 0xFFF409;

/// Bitwise CRC-24 (Mode S generator 0x1FFF409) over `data`; returns the 24-bit remainder.
pub fn crc24(data: &[u8]) -> u32 {
    let mut crc: u32 = 0;
    for &b in data {
        crc ^= (b as u32) << 16;
        for _ in 0..8 {
            crc <<= 1;
            if crc & 0x100_0000 != 0 {
                crc ^= 0x100_0000 | POLY;
            }
        }
    }
    crc & 0xFF_FFFF
}

/// MSB-first bit packer.
#[derive(Clone, Debug, Default)]
pub struct Bits {
    pub bytes: Vec<u8>,
    nbits: usize,
}

impl Bits {
    pub fn new() -> Self {
        Self::default()
    }
    pub fn push(&mut self, value: u64, n: usize) -> &mut Self {
        for i in (0..n).rev() {
            let bit = ((value >> i) & 1) as u8;
            if self.nbits % 8 == 0 {
                self.bytes.push(0);
            }
            let last = self.bytes.len() - 1;
            self.bytes[last] |= bit << (7 - (self.nbits % 8));
            self.nbits += 1;
        }
        self
    }
    pub fn len(&self) -> usize {
        self.nbits
    }
    pub fn is_empty(&self) -> bool {
        self.nbits == 0
    }
}

/// Append the 24-bit parity: CRC of the data bits XOR `overlay` (the address for AP frames, 0 for
/// the PI field of DF11/17/18).
pub fn seal(mut data: Vec<u8>, overlay: u32) -> Vec<u8> {
    let p = crc24(&data) ^ (overlay & 0xFF_FFFF);
    data.push((p >> 16) as u8);
    data.push((p >> 8) as u8);
    data.push(p as u8);
    data
}

pub fn addr_u32(a: [u8; 3]) -> u32 {
    ((a[0] as u32) << 16) | ((a[1] as u32) << 8) | a[2] as u32
}

/// DF17 frame: 5 bits DF, 3 bits CA, 24 bits AA, 56 bits ME, 24 bits PI.
pub fn df17(ca: u8, aa: [u8; 3], me: [u8; 7]) -> Vec<u8> {
    let mut d = vec![(17 << 3) | (ca & 7), aa[0], aa[1], aa[2]];
    d.extend_from_slice(&me);
    seal(d, 0)
}

/// DF18 frame: 5 bits DF, 3 bits CF, 24 bits AA, 56 bits ME, 24 bits PI.
pub fn df18(cf: u8, aa: [u8; 3], me: [u8; 7]) -> Vec<u8> {
    let mut d = vec![(18 << 3) | (cf & 7), aa[0], aa[1], aa[2]];
    d.extend_from_slice(&me);
    seal(d, 0)
}

/// DF11 all-call reply: 5 DF, 3 CA, 24 AA, 24 PI (interrogator id 0).
pub fn df11(ca: u8, aa: [u8; 3]) -> Vec<u8> {
    seal(vec![(11 << 3) | (ca & 7), aa[0], aa[1], aa[2]], 0)
}

/// Short surveillance-type frame (DF0/4/5): 5 DF + 27 payload bits + AP (address overlaid).
pub fn short_ap(df: u8, payload27: u32, addr: [u8; 3]) -> Vec<u8> {
    let w: u32 = ((df as u32 & 31) << 27) | (payload27 & 0x7FF_FFFF);
    seal(w.to_be_bytes().to_vec(), addr_u32(addr))
}

/// Long frame with address/parity overlay (DF16/20/21/24..31): 5 DF + 83 payload bits + AP.
pub fn long_ap(df: u8, payload: [u8; 11], addr: [u8; 3]) -> Vec<u8> {
    let mut d = payload.to_vec();
    d[0] = ((df & 31) << 3) | (d[0] & 7);
    seal(d, addr_u32(addr))
}

// ---------------------------------------------------------------- ME payloads (56 bits)

fn me_from_bits(b: Bits) -> [u8; 7] {
    assert_eq!(b.len(), 56, "ME must be 56 bits");
    let mut me = [0u8; 7];
    me.copy_from_slice(&b.bytes);
    me
}

/// 12-bit altitude code with Q=1 (25 ft steps), `alt_ft` in -1000..=50175.
pub fn ac12_q(alt_ft: i32) -> u16 {
    let n = ((alt_ft + 1000) / 25) as u16 & 0x7FF;
    ((n & 0x7F0) << 1) | 0x10 | (n & 0xF)
}

/// Airborne position ME (TC 9..=18 baro, 20..=22 GNSS).
pub fn me_airborne_position(tc: u8, ss: u8, saf: u8, ac12: u16, t: bool, odd: bool, lat_cpr: u32, lon_cpr: u32) -> [u8; 7] {
    let mut b = Bits::new();
    b.push(tc as u64, 5)
        .push(ss as u64, 2)
        .push(saf as u64, 1)
        .push(ac12 as u64, 12)
        .push(t as u64, 1)
        .push(odd as u64, 1)
        .push(lat_cpr as u64 & 0x1FFFF, 17)
        .push(lon_cpr as u64 & 0x1FFFF, 17);
    me_from_bits(b)
}

/// 6-bit character code of the ICAO alphabet (A-Z, 0-9, space); None if not representable.
pub fn ais_code(c: char) -> Option<u8> {
    match c {
        'A'..='Z' => Some(c as u8 - b'A' + 1),
        '0'..='9' => Some(c as u8 - b'0' + 48),
        ' ' => Some(32),
        _ => None,
    }
}

/// Identification ME (TC 1..=4): 5 TC, 3 CA, 8 x 6-bit characters.
pub fn me_identification(tc: u8, ca: u8, callsign: &str) -> [u8; 7] {
    let mut b = Bits::new();
    b.push(tc as u64, 5).push(ca as u64, 3);
    let mut chars: Vec<u8> = callsign.chars().filter_map(ais_code).collect();
    chars.resize(8, 32);
    for c in chars.iter().take(8) {
        b.push(*c as u64, 6);
    }
    me_from_bits(b)
}

/// Airborne velocity ME (TC 19) with explicit raw fields.
#[allow(clippy::too_many_arguments)]
pub fn me_velocity(st: u8, nac: u8, sub22: u32, vr_src: u8, vr_sign: u8, vr: u16, gnss_sign: u8, gnss_diff: u8) -> [u8; 7] {
    let mut b = Bits::new();
    b.push(19, 5)
        .push(st as u64, 3)
        .push(nac as u64, 5)
        .push(sub22 as u64 & 0x3F_FFFF, 22)
        .push(vr_src as u64, 1)
        .push(vr_sign as u64, 1)
        .push(vr as u64 & 0x1FF, 9)
        .push(0, 2)
        .push(gnss_sign as u64, 1)
        .push(gnss_diff as u64 & 0x7F, 7);
    me_from_bits(b)
}

/// 22-bit ground-speed sub field: EW sign, 10-bit EW velocity, NS sign, 10-bit NS velocity.
pub fn sub_ground_speed(ew_sign: u8, ew: u16, ns_sign: u8, ns: u16) -> u32 {
    ((ew_sign as u32 & 1) << 21) | ((ew as u32 & 0x3FF) << 11) | ((ns_sign as u32 & 1) << 10) | (ns as u32 & 0x3FF)
}

/// ME with a given type code and 51 arbitrary payload bits.
pub fn me_raw(tc: u8, payload51: u64) -> [u8; 7] {
    let mut b = Bits::new();
    b.push(tc as u64, 5).push(payload51 & ((1u64 << 51) - 1), 51);
    me_from_bits(b)
}

// ---------------------------------------------------------------- CPR encoding (airborne, 17 bit)

/// Analytic NL(lat): number of longitude zones (DO-260B A.1.7.2 d).
pub fn nl(lat: f64) -> u32 {
    let a = lat.abs();
    if a == 0.0 {
        return 59;
    }
    if a == 87.0 {
        return 2;
    }
    if a > 87.0 {
        return 1;
    }
    let nz = 15.0f64;
    let num = 1.0 - (std::f64::consts::PI / (2.0 * nz)).cos();
    let den = (std::f64::consts::PI / 180.0 * a).cos().powi(2);
    let v = 2.0 * std::f64::consts::PI / (1.0 - num / den).acos();
    v.floor() as u32
}

fn fmod_pos(a: f64, b: f64) -> f64 {
    let r = a % b;
    if r < 0.0 {
        r + b
    } else {
        r
    }
}

/// Encode (lat, lon) in degrees as a 17-bit airborne CPR pair (YZ, XZ) of the given parity.
pub fn cpr_encode(lat: f64, lon: f64, odd: bool) -> (u32, u32) {
    let i = if odd { 1.0 } else { 0.0 };
    let nb = 131072.0; // 2^17
    let dlat = 360.0 / (60.0 - i);
    let yz = (nb * fmod_pos(lat, dlat) / dlat + 0.5).floor();
    let rlat = dlat * (yz / nb + (lat / dlat).floor());
    let nlv = nl(rlat) as f64;
    let dlon = 360.0 / (nlv - i).max(1.0);
    let xz = (nb * fmod_pos(lon, dlon) / dlon + 0.5).floor();
    ((yz as i64).rem_euclid(131072) as u32, (xz as i64).rem_euclid(131072) as u32)
}

// ---------------------------------------------------------------- geodesy helpers for workloads

pub const EARTH_R_KM: f64 = 6371.0;

/// Great-circle distance (haversine, f64 throughout, R = 6371 km).
pub fn great_circle_km(a: (f64, f64), b: (f64, f64)) -> f64 {
    let (la1, lo1, la2, lo2) = (a.0.to_radians(), a.1.to_radians(), b.0.to_radians(), b.1.to_radians());
    let s1 = ((la2 - la1) / 2.0).sin();
    let s2 = ((lo2 - lo1) / 2.0).sin();
    let h = s1 * s1 + la1.cos() * la2.cos() * s2 * s2;
    let h = h.clamp(0.0, 1.0);
    2.0 * EARTH_R_KM * h.sqrt().atan2((1.0 - h).sqrt())
}

/// Destination point from `start` along `bearing_deg` for `dist_km` on the sphere.
pub fn destination(start: (f64, f64), bearing_deg: f64, dist_km: f64) -> (f64, f64) {
    let d = dist_km / EARTH_R_KM;
    let br = bearing_deg.to_radians();
    let la1 = start.0.to_radians();
    let lo1 = start.1.to_radians();
    let la2 = (la1.sin() * d.cos() + la1.cos() * d.sin() * br.cos()).asin();
    let lo2 = lo1 + (br.sin() * d.sin() * la1.cos()).atan2(d.cos() - la1.sin() * la2.sin());
    let mut lon = lo2.to_degrees();
    while lon >= 180.0 {
        lon -= 360.0;
    }
    while lon < -180.0 {
        lon += 360.0;
    }
    (la2.to_degrees(), lon)
}

pub fn hex(bytes: &[u8]) -> String {
    let mut s = String::with_capacity(bytes.len() * 2);
    for b in bytes {
        s.push_str(&format!("{b:02x}"));
    }
    s
}

pub fn unhex(s: &str) -> Vec<u8> {
    (0..s.len() / 2).map(|i| u8::from_str_radix(&s[2 * i..2 * i + 2], 16).unwrap()).collect()
}

#[cfg(test)]
mod tests {
    use super::*;

    #[test]
    fn crc_known_frame() {
        // 8D4840D6202CC371C32CE0576098 : a well known valid DF17 frame
        let f = unhex("8d4840d6202cc371c32ce0576098");
        assert_eq!(crc24(&f[..11]), 0x576098);
    }

    #[test]
    fn nl_spot() {
        assert_eq!(nl(0.0), 59);
        assert_eq!(nl(10.0), 59);
        assert_eq!(nl(10.5), 58);
        assert_eq!(nl(52.0), 36);
        assert_eq!(nl(86.9), 2);
        assert_eq!(nl(89.0), 1);
    }
}
