//! Child-side scenario of Engine K: everything the real `radar` / `1090` process will meet at its
//! seams (socket, operator events, time), as an explicit serialisable script.

use serde::{Deserialize, Serialize};

#[derive(Serialize, Deserialize, Clone, Debug, PartialEq)]
pub enum KOutcome {
    Accept,
    Refuse,
    Timeout,
}

#[derive(Serialize, Deserialize, Clone, Debug, PartialEq)]
pub struct KSegment {
    /// arrival time relative to the accept of its session (virtual microseconds)
    pub at_us: u64,
    /// raw bytes, hex
    pub hex: String,
}

#[derive(Serialize, Deserialize, Clone, Debug, PartialEq)]
pub struct KConnect {
    pub outcome: KOutcome,
    pub segments: Vec<KSegment>,
    /// server closes the connection at this time after accept (None = stays open)
    pub close_at_us: Option<u64>,
    /// close is a reset (one ConnectionReset error, then EOF) instead of an orderly FIN
    pub rst: bool,
    /// indices of read calls of this session that first fail once with Interrupted
    pub eintr_reads: Vec<u64>,
}

#[derive(Serialize, Deserialize, Clone, Debug, PartialEq)]
pub enum KEv {
    Key { code: String, ctrl: bool, shift: bool, alt: bool },
    Mouse { kind: String, col: u16, row: u16 },
    Resize { w: u16, h: u16 },
    FocusGained,
    FocusLost,
    Paste { text: String },
}

#[derive(Serialize, Deserialize, Clone, Debug, PartialEq)]
pub struct KEvent {
    pub at_us: u64,
    pub ev: KEv,
}

#[derive(Serialize, Deserialize, Clone, Debug, PartialEq, Default)]
pub struct KChild {
    pub connects: Vec<KConnect>,
    /// operator events, sorted by time
    pub events: Vec<KEvent>,
    /// per main-loop iteration processing delay (slow terminal / host), cycled; empty = none
    pub proc_delay_us: Vec<u64>,
    /// per read that finds more than one arrived segment: deliver them in one read? cycled; empty = yes
    pub coalesce: Vec<bool>,
    /// more seam calls than this = hang; the seam logs BUDGET and exits 3
    pub step_budget: u64,
}
