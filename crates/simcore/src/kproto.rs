//! Child-side scenario of Engine K: everything the real `radar` / `1090` process will meet at its
//! seams (socket, operator events, time), as an explicit serialisable script.

use serde::{Deserialize, Serialize};

#[derive(Serialize, Deserialize, Clone, Debug, PartialEq)]
pub enum KOutcome {
    Accept,
    Refuse,
    Timeout,
    /// the connect fails at once with this errno (network unreachable, host unreachable, reset,
    /// interrupted, permission denied by a firewall, ...): whatever a real `connect` may answer
    /// besides "refused" and a timeout
    Fail(i32),
}

#[derive(Serialize, Deserialize, Clone, Debug, PartialEq)]
pub struct KSegment {
    /// arrival time relative to the accept of its session (virtual microseconds)
    pub at_us: u64,
    /// raw bytes, hex
    pub hex: String,
    /// the bytes arrive this many times in a row (0 and 1 = once): volume without megabytes of
    /// scenario text
    #[serde(default)]
    pub repeat: u32,
}

#[derive(Serialize, Deserialize, Clone, Debug, PartialEq)]
pub struct KConnect {
    pub outcome: KOutcome,
    pub segments: Vec<KSegment>,
    /// server closes the connection at this time after accept (None = stays open)
    pub close_at_us: Option<u64>,
    /// close is a reset (one ConnectionReset error, then EOF) instead of an orderly FIN
    pub rst: bool,
    /// indices of read calls of this session that first fail once with Interrupted
    pub eintr_reads: Vec<u64>,
}

#[derive(Serialize, Deserialize, Clone, Debug, PartialEq)]
pub enum KEv {
    Key { code: String, ctrl: bool, shift: bool, alt: bool },
    Mouse { kind: String, col: u16, row: u16 },
    Resize { w: u16, h: u16 },
    FocusGained,
    FocusLost,
    Paste { text: String },
}

#[derive(Serialize, Deserialize, Clone, Debug, PartialEq)]
pub struct KEvent {
    pub at_us: u64,
    pub ev: KEv,
}

/// One line the simulated gpsd daemon sends to radar's gpsd thread.
#[derive(Serialize, Deserialize, Clone, Debug, PartialEq)]
pub struct KGpsdLine {
    /// the line is handed over at the first main-loop iteration boundary at or after this time
    pub at_us: u64,
    /// JSON text without the line terminator
    pub text: String,
    /// the position this line reports, when it is a TPV report with a fix (for the seam log)
    pub fix: Option<(f64, f64)>,
}

/// The gpsd daemon radar talks to with `--gpsd` (second connection, served to radar's own thread).
#[derive(Serialize, Deserialize, Clone, Debug, PartialEq, Default)]
pub struct KGpsd {
    pub refuse: bool,
    pub lines: Vec<KGpsdLine>,
}

#[derive(Serialize, Deserialize, Clone, Debug, PartialEq, Default)]
pub struct KChild {
    /// gpsd daemon script (None: radar runs without `--gpsd`)
    #[serde(default)]
    pub gpsd: Option<KGpsd>,
    pub connects: Vec<KConnect>,
    /// operator events, sorted by time
    pub events: Vec<KEvent>,
    /// per main-loop iteration processing delay (slow terminal / host), cycled; empty = none
    pub proc_delay_us: Vec<u64>,
    /// per read that finds more than one arrived segment: deliver them in one read? cycled; empty = yes
    pub coalesce: Vec<bool>,
    /// more seam calls than this = hang; the seam logs BUDGET and exits 3
    pub step_budget: u64,
    /// time the client spends handling one operator event (decoding the escape sequence, its own
    /// handler), cycled; empty = none. Without it computation would take no time at all and a
    /// deadline could never be overrun between two seam calls.
    #[serde(default)]
    pub ev_delay_us: Vec<u64>,
    /// value of the `RUST_LOG` environment variable the client is started with (None = unset):
    /// what a client does must not depend on how much of its diagnostics is switched on
    #[serde(default)]
    pub rust_log: Option<String>,
    /// things that happen to files in the client's working directory while it runs, each tied to
    /// a connect attempt (index into `connects`): (attempt, path, "delete" | "garble" | "truncate").
    /// Carried out by the connect seam just before it answers, i.e. at a scheduled point.
    #[serde(default)]
    pub file_ops: Vec<(usize, String, String)>,
    /// value of the `TZ` environment variable (None = "UTC"): the client reads the local UTC
    /// offset once at start and formats times with it
    #[serde(default)]
    pub tz: Option<String>,
    /// a long outage: before connect number `.0` of the list is answered, this many attempts are
    /// refused (tens of thousands of attempts without tens of thousands of list entries)
    #[serde(default)]
    pub outage: Option<(usize, u32)>,
    /// the window changes size between two *size queries* of the client (not between two events):
    /// just before its n-th TIOCGWINSZ query is answered the terminal becomes w x h
    /// (query index, w, h). A program that asks twice within one draw sees two different answers.
    #[serde(default)]
    pub winsz_ops: Vec<(u64, u16, u16)>,
}
