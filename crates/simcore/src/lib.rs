//! Core of the deterministic simulator: PRNG, engine trait, batch runner (seeded search),
//! shrinker, replay files, evidence writer, known-findings handling.
//!
//! One run is `seed -> Scenario -> Execution -> Outcome`. Scenario generation is the only place
//! that draws from the PRNG; execution is a pure function of the scenario (and the code under
//! test), so the scenario *is* the replay file and the shrinker edits it directly.

pub mod kproto;
pub mod rng;

use std::collections::{BTreeMap, BTreeSet, HashSet};
use std::path::{Path, PathBuf};
use std::sync::atomic::{AtomicBool, AtomicU64, Ordering};
use std::sync::Mutex;
use std::time::Instant;

pub use rng::{fnv_str, Fnv, Rng};
use serde::{de::DeserializeOwned, Deserialize, Serialize};
use serde_json::{json, Value};

pub const DEFAULT_SEED: u64 = 20_261_002;

static DEEP: AtomicBool = AtomicBool::new(false);

/// thorough tier: generators use their deeper bounds (more transmitters, longer feeds, more events)
pub fn set_deep(on: bool) {
    DEEP.store(on, Ordering::Relaxed);
}

pub fn deep() -> bool {
    DEEP.load(Ordering::Relaxed)
}

pub type Counts = BTreeMap<&'static str, u64>;

pub fn bump(c: &mut Counts, k: &'static str) {
    *c.entry(k).or_insert(0) += 1;
}

#[derive(Clone, Debug, Serialize, Deserialize, PartialEq)]
pub struct Violation {
    /// stable class of the failure: property, oracle clause and (for crashes) panic location
    pub signature: String,
    /// human-readable description of this instance
    pub detail: String,
}

#[derive(Clone, Debug, Default)]
pub struct Outcome {
    pub violation: Option<Violation>,
    /// fingerprint of the canonical trace (every scheduler decision and observation)
    pub trace_hash: u64,
    /// fault kinds that actually fired in this run
    pub faults: Counts,
    /// "rare condition reached" probes
    pub probes: Counts,
    /// hashes of abstract states visited (per-property distinct-state measure)
    pub states: Vec<u64>,
    pub virtual_ns: u64,
    pub steps: u64,
    /// run could not be judged (e.g. ended in an open finding of another property)
    pub inconclusive: bool,
}

impl Outcome {
    pub fn fault(&mut self, k: &'static str) {
        bump(&mut self.faults, k);
    }
    pub fn probe(&mut self, k: &'static str) {
        bump(&mut self.probes, k);
    }
    pub fn violate(&mut self, signature: impl Into<String>, detail: impl Into<String>) {
        if self.violation.is_none() {
            self.violation = Some(Violation { signature: signature.into(), detail: detail.into() });
        }
    }
}

pub trait Engine: Sync {
    type Sc: Serialize + DeserializeOwned + Clone + Send + Sync;

    fn engine_name(&self) -> &'static str;
    fn property(&self) -> &'static str;
    /// stream id mixed into the PRNG so engines/properties do not share streams
    fn stream(&self) -> u64;
    fn generate(&self, rng: &mut Rng, fault_free: bool) -> Self::Sc;
    fn execute(&self, sc: &Self::Sc) -> Outcome;
    /// one-step simplifications of `sc`, most aggressive first
    fn shrink(&self, sc: &Self::Sc) -> Vec<Self::Sc>;
    /// abridged, readable rendering for evidence samples
    fn describe(&self, sc: &Self::Sc) -> Value;
    /// probes that must not be stuck at zero in a thorough run
    fn expected_probes(&self) -> Vec<&'static str> {
        vec![]
    }
    fn components(&self) -> Value;
    fn rule(&self) -> String;
    fn assumptions(&self) -> Vec<String>;
    fn state_measure(&self) -> &'static str;
    /// For engines that execute the code under test in this process and whose property says that
    /// repeating an operation never changes its result: the signature under which "the same
    /// scenario executed twice in one fresh process gives two different traces" is reported.
    /// (None: such a difference can only be a defect of the harness.)
    fn repeat_signature(&self) -> Option<&'static str> {
        None
    }
}

#[derive(Clone, Debug)]
pub struct BatchCfg {
    pub seed: u64,
    pub tier: String,
    pub runs: u64,
    pub threads: usize,
    pub wall_cap_s: f64,
    /// share of runs executed with every fault kind off (benign schedules only)
    pub fault_free_every: u64,
    /// every n-th run is executed twice and the two trace hashes compared
    pub determinism_every: u64,
    pub shrink_budget: usize,
    pub verif_dir: PathBuf,
    /// violations established outside the seeded batch (the concurrent-purity stress of C19):
    /// reported, listed in the evidence and matched against the known findings like the others
    pub pre_found: Vec<PreFound>,
    /// extra entries for the evidence's `coverage` object
    pub extra_coverage: Vec<(String, Value)>,
    /// the in-check determinism sample may differ (set only when a `pre_found` violation explains
    /// it: results that depend on what other worker threads decode at the same moment)
    pub tolerate_det_mismatch: bool,
}

#[derive(Clone, Debug)]
pub struct PreFound {
    pub engine: String,
    pub signature: String,
    pub detail: String,
    pub scenario: Value,
}

impl BatchCfg {
    pub fn from_env(tier: &str, quick_runs: u64, thorough_runs: u64, quick_cap: f64, thorough_cap: f64) -> Self {
        let seed = std::env::var("VERIF_SEED").ok().and_then(|s| s.trim().parse::<u64>().ok()).unwrap_or(DEFAULT_SEED);
        let threads = std::env::var("VERIF_THREADS")
            .ok()
            .and_then(|s| s.parse().ok())
            .unwrap_or_else(|| std::thread::available_parallelism().map(|n| n.get()).unwrap_or(4));
        let thorough = tier == "thorough";
        let mut runs = if thorough { thorough_runs } else { quick_runs };
        if let Some(r) = std::env::var("VERIF_RUNS").ok().and_then(|s| s.parse().ok()) {
            runs = r;
        }
        let mut cap = if thorough { thorough_cap } else { quick_cap };
        if let Some(c) = std::env::var("VERIF_WALL_CAP_S").ok().and_then(|s| s.parse().ok()) {
            cap = c;
        }
        Self {
            seed,
            tier: tier.to_string(),
            runs,
            threads,
            wall_cap_s: cap,
            fault_free_every: 10,
            determinism_every: 50,
            shrink_budget: 4000,
            verif_dir: verif_dir(),
            pre_found: vec![],
            extra_coverage: vec![],
            tolerate_det_mismatch: false,
        }
    }
}

pub fn verif_dir() -> PathBuf {
    std::env::var("VERIF_DIR").map(PathBuf::from).unwrap_or_else(|_| PathBuf::from("/verif"))
}

#[derive(Serialize, Deserialize, Clone, Debug)]
pub struct ReplayFile {
    pub property: String,
    pub engine: String,
    pub seed: u64,
    pub run: u64,
    pub signature: String,
    pub detail: String,
    pub trace_hash: String,
    pub scenario: Value,
}

#[derive(Deserialize, Clone, Debug, Default)]
pub struct KnownFindings {
    #[serde(default)]
    pub open: Vec<OpenFinding>,
    #[serde(default)]
    pub fixed: Vec<String>,
}

#[derive(Deserialize, Clone, Debug)]
pub struct OpenFinding {
    pub property: String,
    pub signature: String,
    pub what: String,
    /// optional: the instance's description must contain this text too (narrows an entry to the
    /// specific input / call site, so that another defect showing the same clause is still reported)
    #[serde(default)]
    pub detail_contains: Option<String>,
    #[serde(default)]
    pub example_replay: Option<String>,
}

impl KnownFindings {
    pub fn load(dir: &Path) -> Self {
        let p = dir.join("known_findings.json");
        match std::fs::read_to_string(&p) {
            Ok(s) => match serde_json::from_str(&s) {
                Ok(k) => k,
                Err(e) => harness_error(&format!("known_findings.json does not parse: {e}")),
            },
            Err(_) => Self::default(),
        }
    }
    pub fn matches(&self, property: &str, signature: &str, detail: &str) -> Option<&OpenFinding> {
        self.open.iter().find(|f| f.property == property && f.signature == signature && f.detail_contains.as_ref().map(|d| detail.contains(d.as_str())).unwrap_or(true))
    }
}

pub fn harness_error(msg: &str) -> ! {
    eprintln!("HARNESS-ERROR: {msg}");
    std::process::exit(2)
}

/// Install a panic hook that records message+location in a thread local instead of printing,
/// so that `catch_unwind` callers can classify a panic of the code under test.
pub fn install_panic_capture() {
    std::panic::set_hook(Box::new(|info| {
        let loc = info.location().map(|l| format!("{}:{}", l.file(), l.line())).unwrap_or_default();
        let msg = if let Some(s) = info.payload().downcast_ref::<&str>() {
            (*s).to_string()
        } else if let Some(s) = info.payload().downcast_ref::<String>() {
            s.clone()
        } else {
            "<non-string panic>".to_string()
        };
        LAST_PANIC.with(|p| *p.borrow_mut() = Some((loc, msg)));
    }));
}

thread_local! {
    static LAST_PANIC: std::cell::RefCell<Option<(String, String)>> = const { std::cell::RefCell::new(None) };
}

pub fn take_panic() -> Option<(String, String)> {
    LAST_PANIC.with(|p| p.borrow_mut().take())
}

/// strip the machine-specific prefix of a source path so signatures are stable
pub fn short_loc(loc: &str) -> String {
    let l = loc.strip_prefix("/repo/").unwrap_or(loc);
    // registry paths: keep crate dir + file
    if let Some(i) = l.find("/registry/src/") {
        let rest = &l[i + 14..];
        if let Some(j) = rest.find('/') {
            return rest[j + 1..].to_string();
        }
    }
    l.to_string()
}

struct Found<S> {
    run: u64,
    sc: S,
    violation: Violation,
}

pub struct BatchReport {
    pub exit_code: i32,
}

/// Seeded search: execute `cfg.runs` independent runs on `cfg.threads` workers. Every run is a
/// pure function of (seed, run index); workers only decide who computes which index.
pub fn run_batch<E: Engine>(engine: &E, cfg: &BatchCfg) -> BatchReport {
    let t0 = Instant::now();
    println!(
        "VERIF_SEED={} property={} engine={} tier={} runs={} threads={}",
        cfg.seed,
        engine.property(),
        engine.engine_name(),
        cfg.tier,
        cfg.runs,
        cfg.threads
    );
    let next = AtomicU64::new(0);
    let stop = AtomicBool::new(false);
    struct Agg<S> {
        evaluations: u64,
        fault_free_runs: u64,
        fault_free_violations: u64,
        faulted_violations: u64,
        faults: BTreeMap<&'static str, u64>,
        probes: BTreeMap<&'static str, u64>,
        fingerprints: HashSet<u64>,
        nontrivial: HashSet<u64>,
        states: HashSet<u64>,
        virtual_ns: u128,
        steps: u64,
        inconclusive: u64,
        det_runs: u64,
        det_mismatch: Vec<u64>,
        found: Vec<Found<S>>,
        samples: Vec<(u64, S)>,
        hashes: Vec<(u64, u64)>,
    }
    let agg: Mutex<Agg<E::Sc>> = Mutex::new(Agg {
        evaluations: 0,
        fault_free_runs: 0,
        fault_free_violations: 0,
        faulted_violations: 0,
        faults: BTreeMap::new(),
        probes: BTreeMap::new(),
        fingerprints: HashSet::new(),
        nontrivial: HashSet::new(),
        states: HashSet::new(),
        virtual_ns: 0,
        steps: 0,
        inconclusive: 0,
        det_runs: 0,
        det_mismatch: vec![],
        found: vec![],
        samples: vec![],
        hashes: vec![],
    });
    let hash_dump = std::env::var("VERIF_HASH_DUMP").ok();
    const CHUNK: u64 = 16;
    std::thread::scope(|scope| {
        for _ in 0..cfg.threads.max(1) {
            scope.spawn(|| {
                // local aggregation, merged per chunk to keep the lock cold
                loop {
                    if stop.load(Ordering::Relaxed) {
                        break;
                    }
                    let start = next.fetch_add(CHUNK, Ordering::Relaxed);
                    if start >= cfg.runs {
                        break;
                    }
                    let end = (start + CHUNK).min(cfg.runs);
                    let mut local: Vec<(u64, bool, Outcome, Option<E::Sc>, Option<u64>)> = Vec::with_capacity(CHUNK as usize);
                    for run in start..end {
                        let fault_free = cfg.fault_free_every > 0 && run % cfg.fault_free_every == cfg.fault_free_every - 1;
                        let mut rng = Rng::new(cfg.seed, engine.stream(), run);
                        let sc = engine.generate(&mut rng, fault_free);
                        let out = engine.execute(&sc);
                        let det = if cfg.determinism_every > 0 && run % cfg.determinism_every == 0 {
                            // regenerate from the seed as well: generation must be deterministic too
                            let mut rng2 = Rng::new(cfg.seed, engine.stream(), run);
                            let sc2 = engine.generate(&mut rng2, fault_free);
                            Some(engine.execute(&sc2).trace_hash)
                        } else {
                            None
                        };
                        let keep = out.violation.is_some() || run < 4;
                        local.push((run, fault_free, out, if keep { Some(sc) } else { None }, det));
                    }
                    let mut a = agg.lock().unwrap();
                    for (run, fault_free, out, sc, det) in local {
                        a.evaluations += 1;
                        if fault_free {
                            a.fault_free_runs += 1;
                        }
                        for (k, v) in &out.faults {
                            *a.faults.entry(k).or_insert(0) += v;
                        }
                        for (k, v) in &out.probes {
                            *a.probes.entry(k).or_insert(0) += v;
                        }
                        a.fingerprints.insert(out.trace_hash);
                        if hash_dump.is_some() {
                            a.hashes.push((run, out.trace_hash));
                        }
                        if !out.faults.is_empty() && !out.probes.is_empty() {
                            a.nontrivial.insert(out.trace_hash);
                        }
                        for s in &out.states {
                            a.states.insert(*s);
                        }
                        a.virtual_ns += out.virtual_ns as u128;
                        a.steps += out.steps;
                        if out.inconclusive {
                            a.inconclusive += 1;
                        }
                        if let Some(h) = det {
                            a.det_runs += 1;
                            if h != out.trace_hash {
                                a.det_mismatch.push(run);
                            }
                        }
                        if let Some(v) = out.violation {
                            if fault_free {
                                a.fault_free_violations += 1;
                            } else {
                                a.faulted_violations += 1;
                            }
                            if a.found.len() < 2000 {
                                a.found.push(Found { run, sc: sc.clone().unwrap(), violation: v });
                            }
                        }
                        if run < 4 {
                            if let Some(sc) = sc {
                                a.samples.push((run, sc));
                            }
                        }
                    }
                    drop(a);
                    if t0.elapsed().as_secs_f64() > cfg.wall_cap_s {
                        stop.store(true, Ordering::Relaxed);
                    }
                }
            });
        }
    });
    let mut a = agg.into_inner().unwrap();
    let wall_search = t0.elapsed().as_secs_f64();
    if let Some(path) = &hash_dump {
        // determinism self-test: one line per run, independent of worker count and process
        a.hashes.sort();
        let text: String = a.hashes.iter().map(|(r, h)| format!("{r} {h:016x}\n")).collect();
        std::fs::write(path, text).unwrap_or_else(|e| harness_error(&format!("cannot write {path}: {e}")));
    }

    // evidence and replays normally live in the verification directory; experiments (seeded
    // changes, self-tests) redirect them so that committed evidence is never overwritten
    let out_dir = std::env::var("VERIF_OUT_DIR").map(PathBuf::from).unwrap_or_else(|_| cfg.verif_dir.clone());
    let replay_dir = out_dir.join("replays");
    let _ = std::fs::create_dir_all(&replay_dir);
    let mut pre_found: Vec<PreFound> = cfg.pre_found.clone();
    let mut tolerate = cfg.tolerate_det_mismatch;
    if !a.det_mismatch.is_empty() && !tolerate {
        a.det_mismatch.sort();
        // A run that gives two different traces when executed twice: either the harness is not
        // deterministic, or the code under test keeps state from one operation to the next. The
        // two are told apart in a fresh process, which executes that one scenario twice.
        if let Some(sig) = engine.repeat_signature() {
            // candidates: the runs that differed, and the earliest runs in which the batch saw a
            // violation (the operation that leaves the state behind is often one of those, while
            // the runs that differ are merely the ones that met it)
            a.found.sort_by_key(|f| f.run);
            let mut cands: Vec<u64> = a.det_mismatch.iter().take(8).copied().collect();
            cands.extend(a.found.iter().take(8).map(|f| f.run));
            for run in cands {
                let fault_free = cfg.fault_free_every > 0 && run % cfg.fault_free_every == cfg.fault_free_every - 1;
                let mut rng = Rng::new(cfg.seed, engine.stream(), run);
                let sc = engine.generate(&mut rng, fault_free);
                let rf = ReplayFile { property: engine.property().to_string(), engine: format!("{}x2", engine.engine_name()), seed: cfg.seed, run, signature: sig.to_string(), detail: String::new(), trace_hash: String::new(), scenario: serde_json::to_value(&sc).unwrap() };
                let path = replay_dir.join(format!("{}-{:016x}.probe.json", engine.property(), fnv_str(sig)));
                std::fs::write(&path, serde_json::to_string_pretty(&rf).unwrap()).unwrap_or_else(|e| harness_error(&format!("cannot write replay: {e}")));
                let exe = std::env::current_exe().unwrap_or_else(|e| harness_error(&format!("current_exe: {e}")));
                let run_once = || std::process::Command::new(&exe).arg("replay").arg(&path).env("VERIF_REPLAY_QUIET", "1").output().unwrap_or_else(|e| harness_error(&format!("cannot spawn replay: {e}")));
                let (o1, o2) = (run_once(), run_once());
                let (s1, s2) = (String::from_utf8_lossy(&o1.stdout).to_string(), String::from_utf8_lossy(&o2.stdout).to_string());
                let _ = std::fs::remove_file(&path);
                if o1.status.code() == Some(1) && s1.contains(&format!("replayed signature={sig}")) && s1 == s2 {
                    let detail: String = s1.lines().filter_map(|l| l.strip_prefix("  | ")).collect::<Vec<_>>().join("\n");
                    pre_found.push(PreFound { engine: format!("{}x2", engine.engine_name()), signature: sig.to_string(), detail, scenario: serde_json::to_value(&sc).unwrap() });
                    tolerate = true;
                    break;
                }
            }
        }
    }
    if !a.det_mismatch.is_empty() && !tolerate {
        harness_error(&format!(
            "determinism self-check failed: runs {:?} gave different trace hashes when executed twice",
            &a.det_mismatch[..a.det_mismatch.len().min(8)]
        ));
    }

    // classify violations by signature; earliest run index per signature is minimised
    a.found.sort_by_key(|f| f.run);
    let known = KnownFindings::load(&cfg.verif_dir);
    let mut by_sig: BTreeMap<String, &Found<E::Sc>> = BTreeMap::new();
    let mut sig_count: BTreeMap<String, u64> = BTreeMap::new();
    let mut known_hit: BTreeSet<String> = BTreeSet::new();
    for f in &a.found {
        // instances covered by an open known finding are only announced; every other instance
        // (also of the same signature) competes for being minimised and reported
        if let Some(k) = known.matches(engine.property(), &f.violation.signature, &f.violation.detail) {
            if known_hit.insert(k.what.clone()) {
                println!("KNOWN-FINDING: property={} {}", engine.property(), k.what);
            }
            continue;
        }
        *sig_count.entry(f.violation.signature.clone()).or_insert(0) += 1;
        by_sig.entry(f.violation.signature.clone()).or_insert(f);
    }
    let mut exit_code = 0;
    let mut reported = vec![];
    // violations established outside the batch
    let mut pre_reported = 0i64;
    for pf in &pre_found {
        if let Some(k) = known.matches(engine.property(), &pf.signature, &pf.detail) {
            if known_hit.insert(k.what.clone()) {
                println!("KNOWN-FINDING: property={} {}", engine.property(), k.what);
            }
            continue;
        }
        let rf = ReplayFile { property: engine.property().to_string(), engine: pf.engine.clone(), seed: cfg.seed, run: 0, signature: pf.signature.clone(), detail: pf.detail.clone(), trace_hash: String::new(), scenario: pf.scenario.clone() };
        let path = replay_dir.join(format!("{}-{:016x}.json", engine.property(), fnv_str(&pf.signature)));
        std::fs::write(&path, serde_json::to_string_pretty(&rf).unwrap()).unwrap_or_else(|e| harness_error(&format!("cannot write replay: {e}")));
        println!("violation: signature={}", pf.signature);
        for l in pf.detail.lines().take(40) {
            println!("  | {l}");
        }
        println!("VIOLATION property={} replay={}", engine.property(), path.display());
        reported.push(json!({"signature": pf.signature, "replay": path.display().to_string(), "runs": 1}));
        exit_code = 1;
        pre_reported += 1;
    }
    if tolerate && (!a.det_mismatch.is_empty() || !by_sig.is_empty()) {
        // the batch ran many scenarios in one process against code whose results depend on what
        // else the process does or did: what it found cannot be replayed and is only counted
        println!("note: {} run(s) of the batch differed when executed twice and {} signature(s) were seen in the batch; not minimised (results depend on other activity in the process, see the violation above)", a.det_mismatch.len(), by_sig.len());
        by_sig.clear();
    }
    for (sig, f) in by_sig.iter().take(12) {
        let (min_sc, min_out) = minimise(engine, &f.sc, sig, cfg.shrink_budget);
        // A scenario that violated during the batch but not when executed again in this process
        // met state that earlier runs left behind in the code under test (a process-wide cache, a
        // poisoned lock): it is reported as found, unminimised, and has to reproduce in a fresh
        // process, where nothing is left behind.
        let (min_sc, v, hash) = match min_out.violation.clone() {
            Some(v) if v.signature == *sig => (min_sc, v, format!("{:016x}", min_out.trace_hash)),
            _ => {
                println!("note: the run with signature {sig} did not show it again when executed once more in this process; reported unminimised, verified in a fresh process");
                (f.sc.clone(), f.violation.clone(), String::new())
            }
        };
        let mut rf = ReplayFile {
            property: engine.property().to_string(),
            engine: engine.engine_name().to_string(),
            seed: cfg.seed,
            run: f.run,
            signature: sig.clone(),
            detail: v.detail.clone(),
            trace_hash: hash,
            scenario: serde_json::to_value(&min_sc).unwrap(),
        };
        let path = replay_dir.join(format!("{}-{:016x}.json", engine.property(), fnv_str(sig)));
        std::fs::write(&path, serde_json::to_string_pretty(&rf).unwrap()).unwrap_or_else(|e| harness_error(&format!("cannot write replay: {e}")));
        // the reported scenario must reproduce in a fresh process, exactly
        let fresh_hash = verify_replay_in_fresh_process(&path, sig, &rf.trace_hash);
        if rf.trace_hash.is_empty() {
            rf.trace_hash = fresh_hash;
            std::fs::write(&path, serde_json::to_string_pretty(&rf).unwrap()).unwrap_or_else(|e| harness_error(&format!("cannot write replay: {e}")));
            // and a second fresh process has to agree with the first
            verify_replay_in_fresh_process(&path, sig, &rf.trace_hash);
        }
        println!("violation: signature={sig}");
        println!("  first at run {} of seed {}; {} run(s) with this signature", f.run, cfg.seed, sig_count[sig]);
        for l in v.detail.lines().take(40) {
            println!("  | {l}");
        }
        println!("VIOLATION property={} replay={}", engine.property(), path.display());
        reported.push(json!({"signature": sig, "replay": path.display().to_string(), "runs": sig_count[sig]}));
        exit_code = 1;
    }

    // evidence
    let wall = t0.elapsed().as_secs_f64();
    let samples: Vec<Value> = a.samples.iter().take(4).map(|(run, sc)| json!({"run": run, "scenario": engine.describe(sc)})).collect();
    let missing_probes: Vec<&str> = engine.expected_probes().into_iter().filter(|p| a.probes.get(p).copied().unwrap_or(0) == 0).collect();
    let ev = json!({
        "property_id": engine.property(),
        "tier": cfg.tier,
        "seed": cfg.seed,
        "level": "exploration",
        "coverage": {
            "evaluations": a.evaluations,
            "distinct_nontrivial": a.nontrivial.len(),
            "rule": engine.rule(),
            "samples": samples,
            "distinct_traces": a.fingerprints.len(),
            "distinct_states": {"measure": engine.state_measure(), "count": a.states.len()},
            "fault_free_runs": a.fault_free_runs,
            "fault_free_violations": a.fault_free_violations,
            "faulted_runs": a.evaluations - a.fault_free_runs,
            "faulted_violations": a.faulted_violations,
            "faults_fired": a.faults,
            "probes": a.probes,
            "probes_stuck_at_zero": missing_probes,
            "virtual_seconds_total": (a.virtual_ns as f64) / 1e9,
            "simulated_steps_total": a.steps,
            "runs_per_hour": if wall_search > 0.0 { (a.evaluations as f64 / wall_search * 3600.0) as u64 } else { 0 },
            "determinism_sample": {"runs_executed_twice": a.det_runs, "mismatches": a.det_mismatch.len()},
            "components": engine.components(),
            "known_findings_hit": known_hit.iter().collect::<Vec<_>>(),
            "inconclusive": a.inconclusive,
            "violations_reported": reported,
            "planned_runs": cfg.runs,
            "wall_cap_s": cfg.wall_cap_s,
            "threads": cfg.threads,
        },
        "assumptions": engine.assumptions(),
        "wall_s": wall,
        "violations": by_sig.len() as i64,
    });
    let mut ev = ev;
    for (k, v) in &cfg.extra_coverage {
        ev["coverage"][k.as_str()] = v.clone();
    }
    ev["violations"] = json!(by_sig.len() as i64 + pre_reported);
    let evdir = out_dir.join("evidence");
    let _ = std::fs::create_dir_all(&evdir);
    let evpath = evdir.join(format!("{}.json", engine.property()));
    std::fs::write(&evpath, serde_json::to_string_pretty(&ev).unwrap()).unwrap_or_else(|e| harness_error(&format!("cannot write evidence: {e}")));
    println!(
        "{}: {} runs in {:.1}s ({} distinct traces, {} non-trivial), faults fired {:?}",
        engine.property(),
        a.evaluations,
        wall,
        a.fingerprints.len(),
        a.nontrivial.len(),
        a.faults
    );
    if !missing_probes.is_empty() {
        println!("note: probes stuck at zero in this batch: {missing_probes:?}");
    }
    if exit_code == 0 {
        println!("OK property={} held on everything explored{}", engine.property(), if known_hit.is_empty() { "" } else { " (apart from the known findings announced above)" });
    }
    BatchReport { exit_code }
}

/// Greedy delta debugging: keep taking the first one-step simplification that still shows the
/// same signature.
pub fn minimise<E: Engine>(engine: &E, sc: &E::Sc, sig: &str, budget: usize) -> (E::Sc, Outcome) {
    let mut cur = sc.clone();
    let mut cur_out = engine.execute(&cur);
    let mut spent = 0usize;
    // bounded in executions and in wall-clock time (scale scenarios take a second per execution)
    let t0 = Instant::now();
    let wall_budget = std::env::var("VERIF_SHRINK_WALL_S").ok().and_then(|s| s.parse::<f64>().ok()).unwrap_or(40.0);
    'outer: loop {
        let cands = engine.shrink(&cur);
        for c in cands {
            if spent >= budget || t0.elapsed().as_secs_f64() > wall_budget {
                break 'outer;
            }
            spent += 1;
            let out = engine.execute(&c);
            if out.violation.as_ref().map(|v| v.signature.as_str()) == Some(sig) {
                cur = c;
                cur_out = out;
                continue 'outer;
            }
        }
        break;
    }
    (cur, cur_out)
}

/// returns the trace hash the fresh process printed; an empty `hash` means "not known yet"
fn verify_replay_in_fresh_process(path: &Path, sig: &str, hash: &str) -> String {
    let exe = std::env::current_exe().unwrap_or_else(|e| harness_error(&format!("current_exe: {e}")));
    let out = std::process::Command::new(exe)
        .arg("replay")
        .arg(path)
        .env("VERIF_REPLAY_QUIET", "1")
        .output()
        .unwrap_or_else(|e| harness_error(&format!("cannot spawn replay: {e}")));
    let so = String::from_utf8_lossy(&out.stdout);
    let want_sig = format!("replayed signature={sig}");
    let want_hash = format!("trace_hash={hash}");
    let got_hash = so.lines().find_map(|l| l.strip_prefix("trace_hash=")).unwrap_or("").to_string();
    if out.status.code() != Some(1) || !so.contains(&want_sig) || (!hash.is_empty() && !so.contains(&want_hash)) {
        harness_error(&format!(
            "minimised scenario {} did not reproduce identically in a fresh process (exit {:?}); stdout:\n{}",
            path.display(),
            out.status.code(),
            so
        ));
    }
    got_hash
}

/// `replay <file>` for one engine: re-executes exactly that scenario.
pub fn replay_with<E: Engine>(engine: &E, rf: &ReplayFile, path: &Path) -> i32 {
    let sc: E::Sc = serde_json::from_value(rf.scenario.clone()).unwrap_or_else(|e| harness_error(&format!("malformed scenario in {}: {e}", path.display())));
    let out = engine.execute(&sc);
    println!("trace_hash={:016x}", out.trace_hash);
    match out.violation {
        Some(v) => {
            println!("replayed signature={}", v.signature);
            for l in v.detail.lines().take(60) {
                println!("  | {l}");
            }
            if std::env::var("VERIF_REPLAY_QUIET").is_err() {
                let known = KnownFindings::load(&verif_dir());
                if let Some(k) = known.matches(&rf.property, &v.signature, &v.detail) {
                    println!("KNOWN-FINDING: property={} {}", rf.property, k.what);
                    return 0;
                }
            }
            println!("VIOLATION property={} replay={}", rf.property, path.display());
            1
        }
        None => {
            println!("replay of {} no longer violates {}", path.display(), rf.property);
            0
        }
    }
}

pub fn load_replay(path: &Path) -> ReplayFile {
    let s = std::fs::read_to_string(path).unwrap_or_else(|e| harness_error(&format!("cannot read {}: {e}", path.display())));
    serde_json::from_str(&s).unwrap_or_else(|e| harness_error(&format!("malformed replay file {}: {e}", path.display())))
}

/// Generic list shrinking helper: candidates that drop chunks (halves, quarters, ... singles).
pub fn drop_chunks<T: Clone>(xs: &[T]) -> Vec<Vec<T>> {
    let n = xs.len();
    let mut out = vec![];
    if n == 0 {
        return out;
    }
    let mut size = n;
    while size >= 1 {
        let mut start = 0;
        while start < n {
            let end = (start + size).min(n);
            if !(start == 0 && end == n && n == 0) {
                let mut v = Vec::with_capacity(n - (end - start));
                v.extend_from_slice(&xs[..start]);
                v.extend_from_slice(&xs[end..]);
                if v.len() < n {
                    out.push(v);
                }
            }
            start += size;
        }
        if size == 1 {
            break;
        }
        size /= 2;
    }
    out
}
