//! Own PRNG: xoshiro256** seeded through SplitMix64 from (VERIF_SEED, stream id, run index).
//! No dependence on an external crate's stream, so one integer decides everything forever.

#[derive(Clone, Debug)]
pub struct Rng {
    s: [u64; 4],
}

fn splitmix(x: &mut u64) -> u64 {
    *x = x.wrapping_add(0x9E37_79B9_7F4A_7C15);
    let mut z = *x;
    z = (z ^ (z >> 30)).wrapping_mul(0xBF58_476D_1CE4_E5B9);
    z = (z ^ (z >> 27)).wrapping_mul(0x94D0_49BB_1331_11EB);
    z ^ (z >> 31)
}

impl Rng {
    pub fn new(seed: u64, stream: u64, run: u64) -> Self {
        let mut x = seed
            ^ stream.wrapping_mul(0xD6E8_FEB8_6659_FD93)
            ^ run.wrapping_mul(0xA076_1D64_78BD_642F).rotate_left(17);
        // extra mixing so neighbouring run indices give unrelated streams
        let _ = splitmix(&mut x);
        let s = [splitmix(&mut x), splitmix(&mut x), splitmix(&mut x), splitmix(&mut x)];
        Self { s }
    }

    pub fn next_u64(&mut self) -> u64 {
        let r = self.s[1].wrapping_mul(5).rotate_left(7).wrapping_mul(9);
        let t = self.s[1] << 17;
        self.s[2] ^= self.s[0];
        self.s[3] ^= self.s[1];
        self.s[1] ^= self.s[2];
        self.s[0] ^= self.s[3];
        self.s[2] ^= t;
        self.s[3] = self.s[3].rotate_left(45);
        r
    }

    /// uniform in 0..n (n > 0)
    pub fn below(&mut self, n: u64) -> u64 {
        debug_assert!(n > 0);
        // multiply-shift; bias is < 2^-64 * n, irrelevant here and deterministic anyway
        ((self.next_u64() as u128 * n as u128) >> 64) as u64
    }

    /// uniform in lo..=hi
    pub fn range(&mut self, lo: u64, hi: u64) -> u64 {
        lo + self.below(hi - lo + 1)
    }

    pub fn usize_below(&mut self, n: usize) -> usize {
        self.below(n as u64) as usize
    }

    /// uniform in [0,1)
    pub fn f64(&mut self) -> f64 {
        (self.next_u64() >> 11) as f64 / (1u64 << 53) as f64
    }

    pub fn chance(&mut self, p: f64) -> bool {
        self.f64() < p
    }

    pub fn coin(&mut self) -> bool {
        self.next_u64() & 1 == 1
    }

    pub fn pick<'a, T>(&mut self, xs: &'a [T]) -> &'a T {
        &xs[self.usize_below(xs.len())]
    }

    /// weighted pick: returns an index into `w`
    pub fn weighted(&mut self, w: &[u32]) -> usize {
        let total: u64 = w.iter().map(|&x| x as u64).sum();
        let mut r = self.below(total.max(1));
        for (i, &x) in w.iter().enumerate() {
            if r < x as u64 {
                return i;
            }
            r -= x as u64;
        }
        w.len() - 1
    }

    pub fn f64_range(&mut self, lo: f64, hi: f64) -> f64 {
        lo + (hi - lo) * self.f64()
    }
}

/// FNV-1a 64-bit; used for trace fingerprints (deterministic across processes, unlike std's
/// `RandomState`).
#[derive(Clone, Copy)]
pub struct Fnv(pub u64);

impl Default for Fnv {
    fn default() -> Self {
        Fnv(0xcbf2_9ce4_8422_2325)
    }
}

impl Fnv {
    pub fn new() -> Self {
        Self::default()
    }
    pub fn bytes(&mut self, b: &[u8]) {
        for &x in b {
            self.0 ^= x as u64;
            self.0 = self.0.wrapping_mul(0x0000_0100_0000_01B3);
        }
    }
    pub fn u64(&mut self, v: u64) {
        self.bytes(&v.to_le_bytes());
    }
    pub fn str(&mut self, s: &str) {
        self.bytes(s.as_bytes());
        self.bytes(&[0xff]);
    }
    pub fn finish(&self) -> u64 {
        self.0
    }
}

pub fn fnv_str(s: &str) -> u64 {
    let mut f = Fnv::new();
    f.str(s);
    f.finish()
}
