//! Engine R — reader-schedule simulator (C19).
//!
//! The only simulated component is the byte source: `SimReader` implements `Read + Seek` and a
//! script (generated from the seed, then explicit) decides for every `read` call how many
//! `Interrupted` errors precede the successful return and how long the returned fragment is.
//! Real code under test: `Frame::from_reader`, its caching wrapper, deku's `Reader`, std's
//! `read_exact` / `read_to_end`.

// the reader traits the decoder is generic over: std's in the std build, the `no_std_io2` ones
// (which deku re-exports as `deku::no_std_io`) in the alloc-only build
#[cfg(feature = "alloc_only")]
use no_std_io::io::{self, Read, Seek, SeekFrom};
#[cfg(not(feature = "alloc_only"))]
use std::io::{self, Read, Seek, SeekFrom};
use std::panic::{catch_unwind, AssertUnwindSafe};

use adsb_deku::Frame;
use serde::{Deserialize, Serialize};
use serde_json::{json, Value};
use simcore::{drop_chunks, short_loc, take_panic, Engine, Fnv, Outcome, Rng};

#[derive(Clone, Debug, Serialize, Deserialize, PartialEq)]
pub struct Step {
    /// number of `Interrupted` errors returned before this read succeeds
    pub eintr: u8,
    /// fragment length cap (0 = as much as asked for)
    pub take: u8,
}

#[derive(Clone, Debug, Serialize, Deserialize, PartialEq)]
pub struct Decode {
    /// index into `frames`
    pub frame: usize,
    /// the reader is positioned at this stream offset when the decode starts (the frame's bytes
    /// follow `start` bytes of preceding data, e.g. a capture-file header or earlier frames)
    #[serde(default)]
    pub start: usize,
    /// per read call (in call order); an exhausted script means full reads without errors
    pub steps: Vec<Step>,
    /// `Interrupted` counts for the reads issued directly after a seek, consumed in order
    /// (so that faults land inside the in-flight "re-read" state, not uniformly)
    pub post_seek_eintr: Vec<u8>,
    /// from this answered read call on the reader fails for good (not a transient error). What
    /// such a decode returns is not this property's subject; the decodes that follow it are:
    /// a failed decode in between must not change their results
    #[serde(default)]
    pub hard_error_at: Option<u32>,
    /// re-entrancy: while answering this read call (answered-call index) the reader itself decodes
    /// another byte string (hex) from a slice on the same thread — a reader that is layered on
    /// another Mode S stream, a runtime that runs another task inside a blocking read. The outer
    /// decode must not notice.
    #[serde(default)]
    pub nested_at: Option<(u32, String)>,
}

#[derive(Clone, Debug, Serialize, Deserialize, PartialEq)]
pub struct RScenario {
    /// hex strings: the byte strings decoded in this run
    pub frames: Vec<String>,
    pub decodes: Vec<Decode>,
}

struct SimReader<'a> {
    bytes: &'a [u8],
    pos: usize,
    dec: &'a Decode,
    step: usize,
    pending_eintr: Option<u8>,
    after_seek: bool,
    post_seek_idx: usize,
    calls: u64,
    // observations
    trace: Fnv,
    log: Vec<String>,
    eintr_total: u32,
    eintr_after_seek: u32,
    eintr_in_read_to_end: u32,
    short_reads: u32,
    seek_backs: u32,
    split_two: u32,
    hang: bool,
    hard_failed: bool,
    nested_done: bool,
}

impl<'a> SimReader<'a> {
    fn new(bytes: &'a [u8], dec: &'a Decode) -> Self {
        Self {
            bytes,
            pos: 0,
            dec,
            step: 0,
            pending_eintr: None,
            after_seek: false,
            post_seek_idx: 0,
            calls: 0,
            trace: Fnv::new(),
            log: vec![],
            eintr_total: 0,
            eintr_after_seek: 0,
            eintr_in_read_to_end: 0,
            short_reads: 0,
            seek_backs: 0,
            split_two: 0,
            hang: false,
            hard_failed: false,
            nested_done: false,
        }
    }
    fn note(&mut self, s: String) {
        self.trace.str(&s);
        if self.log.len() < 200 {
            self.log.push(s);
        }
    }
}

const CALL_CAP: u64 = 512;

impl Read for SimReader<'_> {
    fn read(&mut self, buf: &mut [u8]) -> io::Result<usize> {
        self.calls += 1;
        // interruptions are scripted and finite; the cap bounds the calls that were answered
        if self.calls > CALL_CAP + u64::from(self.eintr_total) {
            // bounded run: a decode that keeps calling is reported as a hang
            self.hang = true;
            return Err(io::Error::new(io::ErrorKind::Other, "step cap"));
        }
        if let Some((n, hex)) = &self.dec.nested_at {
            if !self.nested_done && self.step as u32 >= *n {
                self.nested_done = true;
                let inner = wire::unhex(hex);
                let _ = catch_unwind(AssertUnwindSafe(|| Frame::from_bytes(&inner)));
                let _ = take_panic();
                self.note(format!("#{} nested decode of {hex}", self.calls));
            }
        }
        if self.dec.hard_error_at.map(|n| self.step as u32 >= n).unwrap_or(false) {
            self.hard_failed = true;
            self.note(format!("#{} read({})@{} -> EIO", self.calls, buf.len(), self.pos));
            return Err(io::Error::new(io::ErrorKind::BrokenPipe, "simulated: device gone"));
        }
        let step = self.dec.steps.get(self.step).cloned().unwrap_or(Step { eintr: 0, take: 0 });
        if self.pending_eintr.is_none() {
            let mut e = step.eintr;
            if self.after_seek {
                if let Some(&x) = self.dec.post_seek_eintr.get(self.post_seek_idx) {
                    e = x;
                }
                self.post_seek_idx += 1;
            }
            self.pending_eintr = Some(e);
        }
        let pend = self.pending_eintr.unwrap();
        if pend > 0 {
            self.pending_eintr = Some(pend - 1);
            self.eintr_total += 1;
            if self.after_seek {
                self.eintr_after_seek += 1;
            }
            if buf.len() >= 32 {
                self.eintr_in_read_to_end += 1;
            }
            self.note(format!("#{} read({})@{} -> EINTR", self.calls, buf.len(), self.pos));
            return Err(io::Error::new(io::ErrorKind::Interrupted, "simulated EINTR"));
        }
        self.pending_eintr = None;
        self.after_seek = false;
        self.step += 1;
        let remaining = self.bytes.len().saturating_sub(self.pos);
        let mut n = buf.len().min(remaining);
        if step.take > 0 && n > 0 {
            let capped = n.min(step.take as usize).max(1);
            if capped < n {
                self.short_reads += 1;
                if buf.len() == 2 {
                    self.split_two += 1;
                }
            }
            n = capped;
        }
        buf[..n].copy_from_slice(&self.bytes[self.pos..self.pos + n]);
        self.note(format!("#{} read({})@{} -> {}", self.calls, buf.len(), self.pos, n));
        self.pos += n;
        Ok(n)
    }
}

impl Seek for SimReader<'_> {
    fn seek(&mut self, pos: SeekFrom) -> io::Result<u64> {
        self.calls += 1;
        let new = match pos {
            SeekFrom::Start(p) => p as i64,
            SeekFrom::Current(d) => self.pos as i64 + d,
            SeekFrom::End(d) => self.bytes.len() as i64 + d,
        };
        if new < 0 {
            self.note(format!("#{} seek({pos:?}) -> EINVAL", self.calls));
            return Err(io::Error::new(io::ErrorKind::InvalidInput, "negative seek"));
        }
        if (new as usize) < self.pos {
            self.seek_backs += 1;
        }
        self.pos = new as usize;
        self.after_seek = true;
        self.pending_eintr = None;
        self.note(format!("#{} seek({pos:?}) -> {}", self.calls, self.pos));
        Ok(self.pos as u64)
    }
}

fn render(r: &Result<Frame, deku::DekuError>) -> String {
    match r {
        Ok(f) => format!("Ok crc={} df={:?}", f.crc, f.df),
        // the variant class of the error, not its text (texts may carry offsets)
        Err(e) => format!("Err {}", err_class(e)),
    }
}

fn err_class(e: &deku::DekuError) -> String {
    let d = format!("{e:?}");
    d.split(|c: char| !c.is_alphanumeric()).next().unwrap_or("").to_string()
}

pub struct ReaderEngine;

const DFS_BIASED: [u8; 12] = [17, 17, 17, 18, 18, 20, 21, 11, 0, 4, 5, 16];

fn gen_frame(rng: &mut Rng) -> Vec<u8> {
    let df: u8 = if rng.chance(0.6) { *rng.pick(&DFS_BIASED) } else { rng.below(32) as u8 };
    let long = df & 0x10 != 0;
    let mut len = if long { 14 } else { 7 };
    if rng.chance(0.12) {
        // truncated, exact or over-long (a frame followed by further traffic in the same buffer)
        len = if rng.chance(0.25) { 33 + rng.below(64) as usize } else { rng.below(33) as usize };
    }
    let mut b: Vec<u8> = (0..len.max(1)).map(|_| rng.next_u64() as u8).collect();
    b[0] = (df << 3) | (rng.below(8) as u8);
    if b.len() > 4 && (df == 17 || df == 18) {
        // choose the type code (and sub type) deliberately: each has its own read pattern
        let tc = if rng.chance(0.7) { rng.below(32) as u8 } else { *rng.pick(&[0u8, 1, 4, 5, 9, 11, 18, 19, 20, 22, 23, 24, 28, 29, 30, 31]) };
        b[4] = (tc << 3) | (rng.below(8) as u8);
        if tc == 31 && b.len() > 6 && rng.coin() {
            // operational status with the fields deku asserts on set to 0
            b[5] &= 0x33;
            let k = 7 % b.len();
            b[k] &= 0x3f;
        }
    }
    if b.len() > 4 && (df == 20 || df == 21) && rng.chance(0.7) {
        b[4] = *rng.pick(&[0x00u8, 0x10, 0x20, 0x30]);
        if b[4] == 0 && rng.coin() {
            for x in b.iter_mut().skip(4).take(7) {
                *x = 0;
            }
        }
    }
    b.truncate(len);
    b
}

impl Engine for ReaderEngine {
    type Sc = RScenario;

    fn engine_name(&self) -> &'static str {
        if cfg!(feature = "alloc_only") {
            "Ra"
        } else {
            "R"
        }
    }
    fn property(&self) -> &'static str {
        "C19"
    }
    fn stream(&self) -> u64 {
        19
    }
    fn repeat_signature(&self) -> Option<&'static str> {
        if cfg!(feature = "alloc_only") {
            return None;
        }
        Some("C19:result-depends-on-earlier-decodes-in-the-process")
    }

    fn generate(&self, rng: &mut Rng, fault_free: bool) -> RScenario {
        // swarm configuration for this run
        let eintr_rate = if fault_free { 0.0 } else { *rng.pick(&[0.0, 0.02, 0.1, 0.3, 0.6]) };
        let frag_mode = if fault_free { 0 } else { rng.below(3) }; // 0 full, 1 random, 2 one byte
        let post_seek_bias = !fault_free && rng.coin();
        let nframes = 1 + rng.below(2) as usize;
        let mut frames: Vec<Vec<u8>> = (0..nframes).map(|_| gen_frame(rng)).collect();
        if frames.len() == 2 && rng.chance(0.3) && !frames[0].is_empty() {
            // B shares a prefix with A (state keyed by the first bytes of a frame must not leak)
            let mut b = frames[0].clone();
            let n = b.len();
            // often exactly "same body, different parity" (last three bytes)
            let k = if n > 3 && rng.chance(0.4) { n - 3 } else { 1 + rng.usize_below(n) };
            for x in b.iter_mut().skip(k) {
                *x = rng.next_u64() as u8;
            }
            if k == n {
                b[n - 1] ^= 1 << rng.below(8);
            }
            frames[1] = b;
        }
        let order: Vec<usize> = match (nframes, rng.below(4)) {
            (1, 0) => vec![0, 0],
            (1, _) => vec![0],
            (_, 0) => vec![0, 1, 0],
            (_, 1) => vec![0, 1],
            (_, _) => vec![1, 0, 1],
        };
        let decodes = order
            .into_iter()
            .map(|frame| {
                let nsteps = 48;
                // "however many": a few decodes meet a storm of interruptions (a profiling timer,
                // a debugger attached) — hundreds in one call, or tens before every call
                let storm = if !fault_free && rng.chance(0.04) { 1 + rng.below(2) } else { 0 };
                let storm_at = rng.usize_below(16);
                let mut i_step = 0usize;
                let steps = (0..nsteps)
                    .map(|_| {
                        let mut eintr = if eintr_rate > 0.0 && rng.chance(eintr_rate) { 1 + rng.below(3) as u8 } else { 0 };
                        match storm {
                            1 if i_step == storm_at || (i_step == storm_at + 1 && rng.coin()) => eintr = 120 + rng.below(136) as u8,
                            2 => eintr = 8 + rng.below(40) as u8,
                            _ => {}
                        }
                        i_step += 1;
                        let take = match frag_mode {
                            0 => 0,
                            1 => {
                                if rng.coin() {
                                    0
                                } else {
                                    1 + rng.below(4) as u8
                                }
                            }
                            _ => 1,
                        };
                        Step { eintr, take }
                    })
                    .collect();
                let post_seek_eintr = if post_seek_bias { (0..4).map(|_| if rng.coin() { 1 + rng.below(3) as u8 } else { 0 }).collect() } else { vec![] };
                let start = if fault_free || rng.chance(0.7) { 0 } else { *rng.pick(&[1usize, 2, 7, 14, 28, 100]) };
                Decode { frame, start, steps, post_seek_eintr, hard_error_at: None, nested_at: None }
            })
            .collect();
        let mut decodes: Vec<Decode> = decodes;
        if !fault_free && rng.chance(0.03) {
            // a decode nested inside a read call of another decode (same thread)
            let i = rng.usize_below(decodes.len());
            let inner = if frames.len() >= 2 && rng.coin() { frames[(decodes[i].frame + 1) % frames.len()].clone() } else { gen_frame(rng) };
            decodes[i].nested_at = Some((rng.below(14) as u32, wire::hex(&inner)));
        }
        if !fault_free && decodes.len() >= 2 && rng.chance(0.03) {
            // the device behind one reader goes away in the middle of a decode; the decodes after
            // it use healthy readers
            let i = rng.usize_below(decodes.len() - 1);
            decodes[i].hard_error_at = Some(rng.below(16) as u32);
        }
        RScenario { frames: frames.iter().map(|f| wire::hex(f)).collect(), decodes }
    }

    fn execute(&self, sc: &RScenario) -> Outcome {
        let mut out = Outcome::default();
        let mut h = Fnv::new();
        let frames: Vec<Vec<u8>> = sc.frames.iter().map(|s| wire::unhex(s)).collect();
        // purity across decodes: the result for a byte string must not depend on what was decoded
        // before it. Each frame is decoded from the slice once after an unrelated fixed frame and
        // once after every other frame of the scenario; all results must agree.
        let decode_slice = |b: &[u8]| -> String {
            match catch_unwind(AssertUnwindSafe(|| Frame::from_bytes(b))) {
                Ok(r) => render(&r),
                Err(_) => {
                    let (loc, msg) = take_panic().unwrap_or_default();
                    // a panic of the slice decoder is C01's subject; here it only matters that
                    // the reader path behaves identically
                    format!("Panic {} {}", short_loc(&loc), msg)
                }
            }
        };
        const NEUTRAL: [u8; 7] = [0x5d, 0x3c, 0x64, 0x88, 0x1d, 0x3f, 0x8c]; // a DF11 all-call reply
        // reference: decoding the slice (fault-free by construction), right after the neutral frame
        let mut reference: Vec<Option<String>> = vec![None; frames.len()];
        for (i, x) in frames.iter().enumerate() {
            let _ = decode_slice(&NEUTRAL);
            let base = decode_slice(x);
            reference[i] = Some(base.clone());
            for (j, y) in frames.iter().enumerate() {
                if i == j {
                    continue;
                }
                let _ = decode_slice(y);
                let after = decode_slice(x);
                out.probe("order_dependence_judged");
                if after != base && !base.starts_with("Panic") {
                    out.violate("C19:result-depends-on-previous-decode", format!("bytes {} decode to\n  {base}\nafter an unrelated frame, but to\n  {after}\ndirectly after decoding {}", sc.frames[i], sc.frames[j]));
                }
            }
        }
        let _ = decode_slice(&NEUTRAL);
        let mut state = Fnv::new();
        for (k, dec) in sc.decodes.iter().enumerate() {
            let Some(bytes) = frames.get(dec.frame) else { continue };
            let want = match &reference[dec.frame] {
                Some(w) => w.clone(),
                None => {
                    let r = catch_unwind(AssertUnwindSafe(|| Frame::from_bytes(bytes)));
                    let w = match r {
                        Ok(r) => render(&r),
                        Err(_) => {
                            let (loc, msg) = take_panic().unwrap_or_default();
                            // a panic of the slice decoder is C01's subject; here it only matters
                            // that the reader path behaves identically
                            format!("Panic {} {}", short_loc(&loc), msg)
                        }
                    };
                    reference[dec.frame] = Some(w.clone());
                    w
                }
            };
            // purity of the slice path itself (repeat)
            if k > 0 {
                if let Ok(r) = catch_unwind(AssertUnwindSafe(|| Frame::from_bytes(bytes))) {
                    let again = render(&r);
                    if again != want && !want.starts_with("Panic") {
                        out.violate("C19:from_bytes-not-pure", format!("bytes {} decoded twice differ:\n{want}\n{again}", sc.frames[dec.frame]));
                    }
                }
            }
            // stream = `start` bytes of unrelated data, then the frame; reader positioned at `start`
            let mut stream: Vec<u8> = (0..dec.start).map(|i| (i as u8).wrapping_mul(37).wrapping_add(0x8d)).collect();
            stream.extend_from_slice(bytes);
            let mut rd = SimReader::new(&stream, dec);
            rd.pos = dec.start;
            if dec.start > 0 {
                out.probe("decode_started_at_nonzero_stream_offset");
            }
            let got = catch_unwind(AssertUnwindSafe(|| Frame::from_reader(&mut rd)));
            let got_s = match got {
                Ok(r) => render(&r),
                Err(_) => {
                    let (loc, msg) = take_panic().unwrap_or_default();
                    format!("Panic {} {}", short_loc(&loc), msg)
                }
            };
            h.u64(rd.trace.finish());
            h.str(&got_s);
            state.u64(rd.trace.finish());
            out.steps += rd.calls;
            if rd.nested_done {
                out.fault("decode_nested_inside_a_read_call");
            }
            if rd.hard_failed {
                // not judged itself; everything decoded after it is
                out.fault("hard_read_error_in_an_earlier_decode");
                continue;
            }
            if rd.eintr_total > 0 {
                *out.faults.entry("eintr").or_insert(0) += rd.eintr_total as u64;
            }
            if rd.eintr_total >= 255 {
                out.fault("eintr_storm_ge_255_in_one_decode");
            }
            if rd.short_reads > 0 {
                *out.faults.entry("short_read").or_insert(0) += rd.short_reads as u64;
            }
            if rd.eintr_after_seek > 0 {
                out.probe("eintr_directly_after_seek");
            }
            if rd.eintr_in_read_to_end > 0 {
                out.probe("eintr_in_read_to_end");
            }
            if rd.seek_backs >= 2 {
                out.probe("decode_with_two_seek_backs");
            }
            if rd.seek_backs >= 1 {
                out.probe("decode_with_seek_back");
            }
            if rd.split_two > 0 {
                out.probe("two_byte_read_split");
            }
            let exact = bytes.len() == if bytes.first().map(|b| b & 0x80 != 0).unwrap_or(false) { 14 } else { 7 };
            if !exact && rd.eintr_total > 0 {
                out.probe("truncated_or_overlong_buffer_with_eintr");
            }
            if k > 0 {
                out.probe("repeated_or_interleaved_decode");
            }
            if rd.hang {
                out.violate("C19:hang", format!("decode of {} issued more than {CALL_CAP} reader calls beyond the injected interruptions", sc.frames[dec.frame]));
            }
            if got_s != want {
                let class = if got_s.starts_with("Panic") {
                    format!("panic:{}", got_s.split(' ').nth(1).unwrap_or(""))
                } else if rd.eintr_after_seek > 0 {
                    "eintr-directly-after-seek".to_string()
                } else if rd.eintr_total > 0 {
                    "eintr".to_string()
                } else if rd.short_reads > 0 {
                    "fragmentation-only".to_string()
                } else {
                    "benign-schedule".to_string()
                };
                let mut detail = format!("decode #{k} of bytes {}\nfrom_bytes : {want}\nfrom_reader: {got_s}\nreader calls:\n", sc.frames[dec.frame]);
                for l in &rd.log {
                    detail.push_str("  ");
                    detail.push_str(l);
                    detail.push('\n');
                }
                out.violate(format!("C19:reader-result-differs:{class}"), detail);
            }
        }
        out.states.push(state.finish());
        out.trace_hash = h.finish();
        out
    }

    fn shrink(&self, sc: &RScenario) -> Vec<RScenario> {
        let mut c = vec![];
        // fewer decodes
        for d in drop_chunks(&sc.decodes) {
            if !d.is_empty() {
                c.push(RScenario { frames: sc.frames.clone(), decodes: d });
            }
        }
        for (i, d) in sc.decodes.iter().enumerate() {
            // drop the whole script / the post-seek list
            if !d.steps.is_empty() {
                let mut s = sc.clone();
                s.decodes[i].steps.clear();
                c.push(s);
                // trim trailing steps
                let mut s = sc.clone();
                let n = d.steps.len();
                s.decodes[i].steps.truncate(n / 2);
                c.push(s);
                let mut s = sc.clone();
                s.decodes[i].steps.truncate(n - 1);
                c.push(s);
            }
            if d.start > 0 {
                let mut s = sc.clone();
                s.decodes[i].start = 0;
                c.push(s);
                if d.start > 1 {
                    let mut s = sc.clone();
                    s.decodes[i].start = 1;
                    c.push(s);
                }
            }
            if d.hard_error_at.is_some() {
                let mut s = sc.clone();
                s.decodes[i].hard_error_at = None;
                c.push(s);
            }
            if d.nested_at.is_some() {
                let mut s = sc.clone();
                s.decodes[i].nested_at = None;
                c.push(s);
            }
            if !d.post_seek_eintr.is_empty() {
                let mut s = sc.clone();
                s.decodes[i].post_seek_eintr.clear();
                c.push(s);
                let mut s = sc.clone();
                s.decodes[i].post_seek_eintr.pop();
                c.push(s);
            }
            for (j, st) in d.steps.iter().enumerate() {
                if st.eintr > 0 {
                    let mut s = sc.clone();
                    s.decodes[i].steps[j].eintr = 0;
                    c.push(s);
                    if st.eintr > 1 {
                        let mut s = sc.clone();
                        s.decodes[i].steps[j].eintr = 1;
                        c.push(s);
                    }
                }
                if st.take > 0 {
                    let mut s = sc.clone();
                    s.decodes[i].steps[j].take = 0;
                    c.push(s);
                }
            }
            for (j, &e) in d.post_seek_eintr.iter().enumerate() {
                if e > 0 {
                    let mut s = sc.clone();
                    s.decodes[i].post_seek_eintr[j] = 0;
                    c.push(s);
                    if e > 1 {
                        let mut s = sc.clone();
                        s.decodes[i].post_seek_eintr[j] = 1;
                        c.push(s);
                    }
                }
            }
        }
        c
    }

    fn describe(&self, sc: &RScenario) -> Value {
        json!({
            "frames": sc.frames,
            "decodes": sc.decodes.iter().map(|d| json!({
                "frame": d.frame,
                "reader_start_offset": d.start,
                "faulted_reads": d.steps.iter().enumerate().filter(|(_, s)| s.eintr > 0 || s.take > 0).take(12)
                    .map(|(i, s)| format!("read#{i}: eintr x{} then fragment<={}", s.eintr, if s.take == 0 { "full".to_string() } else { s.take.to_string() })).collect::<Vec<_>>(),
                "post_seek_eintr": d.post_seek_eintr,
            })).collect::<Vec<_>>()
        })
    }

    fn expected_probes(&self) -> Vec<&'static str> {
        vec![
            "eintr_directly_after_seek",
            "eintr_in_read_to_end",
            "decode_with_two_seek_backs",
            "two_byte_read_split",
            "truncated_or_overlong_buffer_with_eintr",
            "repeated_or_interleaved_decode",
            "decode_started_at_nonzero_stream_offset",
            "order_dependence_judged",
        ]
    }

    fn components(&self) -> Value {
        json!({
            "real": ["adsb_deku::Frame::from_reader", "adsb_deku ReaderCrc caching wrapper", "deku::reader::Reader", "std::io::Read::read_exact / read_to_end", "adsb_deku::Frame::from_bytes (reference path)"],
            "simulated": ["the Read + Seek byte source (fragment length and Interrupted errors per call)"],
            "stub": []
        })
    }

    fn rule(&self) -> String {
        "seed -> 1..2 byte strings (every DF 0..31, DF17/18 with every type code, DF20/21 BDS classes, lengths 0..=96) decoded in orders A | A,A | A,B | A,B,A through a scripted reader that starts at stream offset 0 (70 %) or 1..100; per read call the script gives 0..3 Interrupted errors and a fragment cap (full / 1..4 / 1 byte), with an optional bias that puts Interrupted on the read directly after a seek. A run is non-trivial when at least one fault fired (Interrupted or short read) and at least one probe was reached; distinct = distinct fingerprint of the full read/seek call trace plus results.".to_string()
    }

    fn assumptions(&self) -> Vec<String> {
        vec![
            "seek never fails (the property speaks of short reads and transient Interrupted only)".into(),
            "at most 3 consecutive Interrupted per read call, buffers of at most 96 bytes".into(),
            "equality of results is judged on crc, the Debug rendering of the decoded frame and the error variant class".into(),
        ]
    }

    fn state_measure(&self) -> &'static str {
        "distinct (read/seek call pattern, fault positions) traces per run"
    }
}


// ------------------------------------------------------------------------------------------------
// Concurrent purity (supplement to the seeded batch).
//
// "Decoding is a pure function of the bytes": also when other threads decode other frames at the
// same moment. The library has no shared state, so there is no seam a scheduler could own; what
// can be done is to run the same decodes on several real threads and compare every result with
// the sequential reference. This part is NOT deterministic simulation: the operating system
// schedules the threads, a failure is reproduced statistically (replay re-runs the stress until
// the same mismatch class shows), and a clean run is weaker evidence than a clean batch. It is
// here because a batch of 16 workers in one process silently assumes it.

pub struct ConcReport {
    pub violation: Option<simcore::PreFound>,
    pub coverage: serde_json::Value,
}

fn conc_pool(seed: u64) -> Vec<Vec<u8>> {
    let mut rng = Rng::new(seed, 0x19c, 0);
    let mut v: Vec<Vec<u8>> = vec![];
    while v.len() < 6 {
        let f = gen_frame(&mut rng);
        if f.len() >= 7 {
            v.push(f);
        }
    }
    // same leading bytes, different tail; same tail, different leading byte
    let mut a = v[0].clone();
    let n = a.len();
    a[n - 1] ^= 0x5a;
    v.push(a);
    let mut b = v[1].clone();
    b[1] ^= 0x81;
    v.push(b);
    v
}

pub fn concurrent_stress(frames: &[Vec<u8>], threads: usize, wall: std::time::Duration) -> (Option<(String, String)>, u64) {
    use std::sync::atomic::{AtomicBool, AtomicU64, Ordering};
    let dec = |b: &[u8], via_reader: bool| -> String {
        let r = catch_unwind(AssertUnwindSafe(|| if via_reader { Frame::from_reader(io::Cursor::new(b)) } else { Frame::from_bytes(b) }));
        match r {
            Ok(r) => render(&r),
            Err(_) => {
                let _ = take_panic();
                "Panic".to_string()
            }
        }
    };
    let refs: Vec<String> = frames.iter().map(|f| dec(f, false)).collect();
    let stop = AtomicBool::new(false);
    let total = AtomicU64::new(0);
    let found: std::sync::Mutex<Option<(String, String)>> = std::sync::Mutex::new(None);
    let t0 = std::time::Instant::now();
    std::thread::scope(|sc| {
        for t in 0..threads {
            let (refs, stop, total, found, dec) = (&refs, &stop, &total, &found, &dec);
            sc.spawn(move || {
                let mut i = 0usize;
                let mut done = 0u64;
                while !stop.load(Ordering::Relaxed) {
                    let k = (t + i) % frames.len();
                    let got = dec(&frames[k], (i / frames.len()) % 2 == 1);
                    done += 1;
                    if got != refs[k] && !refs[k].starts_with("Panic") {
                        let mut g = found.lock().unwrap();
                        if g.is_none() {
                            *g = Some((wire::hex(&frames[k]), format!("thread {t}, its decode #{i}: bytes {} decode to\n  {}\nwhile {} other thread(s) decode other frames, but to\n  {}\non their own", wire::hex(&frames[k]), got, threads - 1, refs[k])));
                        }
                        stop.store(true, Ordering::Relaxed);
                    }
                    i += 1;
                    if i % 64 == 0 && t0.elapsed() > wall {
                        break;
                    }
                }
                total.fetch_add(done, Ordering::Relaxed);
            });
        }
    });
    let f = found.into_inner().unwrap();
    (f, total.load(Ordering::Relaxed))
}

pub fn concurrent_purity(seed: u64, tier: &str, threads: usize) -> ConcReport {
    let wall_s: f64 = std::env::var("VERIF_CONC_WALL_S").ok().and_then(|s| s.parse().ok()).unwrap_or(if tier == "thorough" { 40.0 } else { 4.0 });
    let threads = threads.clamp(2, 8);
    let frames = conc_pool(seed);
    let t0 = std::time::Instant::now();
    let (found, decodes) = concurrent_stress(&frames, threads, std::time::Duration::from_secs_f64(wall_s));
    let hexes: Vec<String> = frames.iter().map(|f| wire::hex(f)).collect();
    let coverage = json!({
        "what": "real threads decoding a pool of frames at the same time, every result compared with the sequential reference; NOT deterministic (the operating system schedules the threads): supplementary stress, failures are reproduced statistically",
        "threads": threads, "frames": hexes, "decodes": decodes, "wall_s": t0.elapsed().as_secs_f64(), "mismatch": found.is_some(),
    });
    println!("concurrent purity: {decodes} decodes on {threads} threads in {:.1}s, {}", t0.elapsed().as_secs_f64(), if found.is_some() { "MISMATCH" } else { "all equal to the sequential reference" });
    let violation = found.map(|(_, detail)| simcore::PreFound {
        engine: "Rc".into(),
        signature: "C19:result-depends-on-concurrent-decodes".into(),
        detail,
        scenario: json!({"frames": hexes, "threads": threads}),
    });
    ConcReport { violation, coverage }
}

/// `replay` of a concurrent-purity finding: the stress is repeated on the recorded frames until the
/// mismatch shows again (bounded); a thread race cannot be replayed exactly.
pub fn replay_concurrent(rf: &simcore::ReplayFile, path: &std::path::Path) -> i32 {
    let frames: Vec<Vec<u8>> = rf.scenario["frames"].as_array().map(|a| a.iter().filter_map(|x| x.as_str()).map(wire::unhex).collect()).unwrap_or_default();
    let threads = rf.scenario["threads"].as_u64().unwrap_or(4) as usize;
    if frames.is_empty() {
        simcore::harness_error("replay file without frames");
    }
    let (found, decodes) = concurrent_stress(&frames, threads, std::time::Duration::from_secs(60));
    println!("trace_hash=");
    match found {
        Some((_, detail)) => {
            println!("replayed signature={}", rf.signature);
            for l in detail.lines() {
                println!("  | {l}");
            }
            println!("(a thread race: reproduced statistically after {decodes} decodes, not step by step)");
            println!("VIOLATION property={} replay={}", rf.property, path.display());
            1
        }
        None => {
            println!("replay of {}: no mismatch in {decodes} concurrent decodes", path.display());
            0
        }
    }
}


/// `replay` of a "twice" finding: the scenario is executed twice in this (fresh) process; decoding
/// is a pure function of the bytes, so both executions must leave the same trace.
pub fn replay_twice(rf: &simcore::ReplayFile, path: &std::path::Path) -> i32 {
    let sc: RScenario = serde_json::from_value(rf.scenario.clone()).unwrap_or_else(|e| simcore::harness_error(&format!("malformed scenario in {}: {e}", path.display())));
    let a = ReaderEngine.execute(&sc);
    let b = ReaderEngine.execute(&sc);
    println!("trace_hash={:016x}", a.trace_hash);
    let va = a.violation.as_ref().map(|v| v.signature.clone());
    let vb = b.violation.as_ref().map(|v| v.signature.clone());
    if a.trace_hash != b.trace_hash || va != vb {
        println!("replayed signature={}", rf.signature);
        println!("  | the same decodes (frames {:?}) executed twice in one fresh process leave different traces:", sc.frames);
        println!("  | first : trace {:016x}, {}", a.trace_hash, va.unwrap_or_else(|| "every reader result equal to the slice decoder".into()));
        println!("  | second: trace {:016x}, {}", b.trace_hash, vb.unwrap_or_else(|| "every reader result equal to the slice decoder".into()));
        if let Some(v) = b.violation.as_ref().or(a.violation.as_ref()) {
            for l in v.detail.lines().take(12) {
                println!("  |   {l}");
            }
        }
        println!("  | (a decode left something behind that changes what later decodes return)");
        if std::env::var("VERIF_REPLAY_QUIET").is_err() {
            let known = simcore::KnownFindings::load(&simcore::verif_dir());
            if let Some(k) = known.matches(&rf.property, &rf.signature, "") {
                println!("KNOWN-FINDING: property={} {}", rf.property, k.what);
                return 0;
            }
        }
        println!("VIOLATION property={} replay={}", rf.property, path.display());
        1
    } else {
        println!("replay of {}: both executions leave the same trace", path.display());
        0
    }
}


// ------------------------------------------------------------------------------------------------
// Volume purity: "repeating a decode never changes a result" also after gigabytes have gone through
// the decoder in one process. A frame kind that fetches the rest of its reader (DF19) is decoded
// from a 1 MiB reader a few thousand times (every decode moves the whole megabyte through the
// caching wrapper), a pool of ordinary frames is decoded before and after, from the slice and from
// a reader, and the two sets of results must be equal. Deterministic (single thread, fixed
// inputs); runs in a fresh child process so that whatever it leaves behind cannot touch the batch.

pub fn volume_pass(mib: u32) -> Option<String> {
    let pool = conc_pool(1);
    let dec = |b: &[u8], via_reader: bool| -> String {
        let r = catch_unwind(AssertUnwindSafe(|| if via_reader { Frame::from_reader(io::Cursor::new(b)) } else { Frame::from_bytes(b) }));
        match r {
            Ok(r) => render(&r),
            Err(_) => {
                let (loc, msg) = take_panic().unwrap_or_default();
                format!("Panic {} {}", short_loc(&loc), msg)
            }
        }
    };
    let before: Vec<(String, String)> = pool.iter().map(|f| (dec(f, false), dec(f, true))).collect();
    // DF19 with a military application field: the decoder takes everything that follows
    let mut big = vec![0x9bu8, 0x06, 0x4f, 0x1c, 0x22, 0x77, 0x10];
    big.resize(1 << 20, 0x5a);
    let first = dec(&big, true);
    for i in 0..mib {
        let again = dec(&big, i % 2 == 0);
        if again != first {
            return Some(format!("the same 1 MiB buffer (a DF19 frame and what follows it) decodes differently the {}th time, after {} MiB have gone through the decoder in this process:\nfirst: {}\nnow  : {}", i + 2, i + 1, &first[..first.len().min(160)], &again[..again.len().min(160)]));
        }
    }
    for (f, (a, b)) in pool.iter().zip(&before) {
        let (a2, b2) = (dec(f, false), dec(f, true));
        if a2 != *a || b2 != *b {
            return Some(format!("bytes {} decoded to\n  {a}\nbefore {mib} MiB went through the decoder in this process, and to\n  {}\nafterwards", wire::hex(f), if a2 != *a { a2 } else { b2 }));
        }
    }
    None
}

/// `adsb-sim replay` of a volume finding, and the way the check itself runs the pass: in a process
/// of its own
pub fn replay_volume(rf: &simcore::ReplayFile, path: &std::path::Path) -> i32 {
    let mib = rf.scenario["mib"].as_u64().unwrap_or(4200) as u32;
    println!("trace_hash=");
    match volume_pass(mib) {
        Some(detail) => {
            println!("replayed signature={}", rf.signature);
            for l in detail.lines() {
                println!("  | {l}");
            }
            if std::env::var("VERIF_REPLAY_QUIET").is_err() {
                let known = simcore::KnownFindings::load(&simcore::verif_dir());
                if let Some(k) = known.matches(&rf.property, &rf.signature, &detail) {
                    println!("KNOWN-FINDING: property={} {}", rf.property, k.what);
                    return 0;
                }
            }
            println!("VIOLATION property={} replay={}", rf.property, path.display());
            1
        }
        None => {
            println!("replay of {}: results before and after {mib} MiB are equal", path.display());
            0
        }
    }
}

/// runs the volume pass in a child process; Some(violation) if results changed
pub fn volume_purity(tier: &str) -> (Option<simcore::PreFound>, serde_json::Value) {
    let mib: u32 = std::env::var("VERIF_VOLUME_MIB").ok().and_then(|s| s.parse().ok()).unwrap_or(if tier == "thorough" { 8_400 } else { 4_200 });
    let sig = "C19:result-changes-after-gigabytes-of-decoding";
    let dir = std::env::var("VERIF_OUT_DIR").map(std::path::PathBuf::from).unwrap_or_else(|_| simcore::verif_dir()).join("work");
    let _ = std::fs::create_dir_all(&dir);
    let path = dir.join("C19-volume.probe.json");
    let rf = json!({"property": "C19", "engine": "Rv", "seed": 0, "run": 0, "signature": sig, "detail": "", "trace_hash": "", "scenario": {"mib": mib}});
    std::fs::write(&path, rf.to_string()).unwrap_or_else(|e| simcore::harness_error(&format!("cannot write {}: {e}", path.display())));
    let exe = std::env::current_exe().unwrap_or_else(|e| simcore::harness_error(&format!("current_exe: {e}")));
    let t0 = std::time::Instant::now();
    let out = std::process::Command::new(exe).arg("replay").arg(&path).env("VERIF_REPLAY_QUIET", "1").output().unwrap_or_else(|e| simcore::harness_error(&format!("cannot spawn the volume pass: {e}")));
    let so = String::from_utf8_lossy(&out.stdout).to_string();
    let _ = std::fs::remove_file(&path);
    let cov = json!({"what": "a DF19 frame decoded from a 1 MiB reader again and again in one fresh process, a pool of frames decoded before and after; results must be equal", "mib_through_the_decoder": mib, "wall_s": t0.elapsed().as_secs_f64(), "changed": out.status.code() == Some(1)});
    println!("volume purity: {mib} MiB through the decoder of one process in {:.1}s, {}", t0.elapsed().as_secs_f64(), if out.status.code() == Some(1) { "RESULTS CHANGED" } else { "results unchanged" });
    match out.status.code() {
        Some(0) => (None, cov),
        Some(1) => {
            let detail: String = so.lines().filter_map(|l| l.strip_prefix("  | ")).collect::<Vec<_>>().join("\n");
            (Some(simcore::PreFound { engine: "Rv".into(), signature: sig.into(), detail, scenario: json!({"mib": mib}) }), cov)
        }
        other => simcore::harness_error(&format!("the volume pass ended with {other:?}:\n{so}")),
    }
}
