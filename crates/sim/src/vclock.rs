//! In-process clock seam for Engine T and for the parent-side reference trackers of Engine K.
//!
//! Hook H1 routes the tracker's three `SystemTime::now()` calls through a thread-local virtual
//! clock. That covers the clock reads the tracker has today; a tracker that reads time in any
//! other way (`Instant`, a `SystemTime::now()` added elsewhere) would run on the host's clock and
//! the simulator would no longer decide what it sees. This module closes that hole the same way the
//! child-process seam does: the binary defines `clock_gettime` itself (std's `Instant::now()` and
//! `SystemTime::now()` end there), and while a worker thread executes a scenario the call answers
//! with that thread's virtual time. Threads that are not inside a scenario (the batch driver, wall
//! caps, shrinking budgets) get the real clock through the raw system call.
//!
//! The wall clock follows the scenario exactly, backward steps included; the monotonic clocks only
//! ever advance (by the forward movements of the scenario clock), as the real ones do.

use std::cell::Cell;

use crate::tracker::exec::epoch_s;

const MONO_BASE_S: u64 = 100_000;

thread_local! {
    /// (scenario time in ns, monotonic ns)
    static V: Cell<Option<(u64, u64)>> = const { Cell::new(None) };
}

pub fn set(t_ns: u64) {
    V.with(|v| {
        let mono = match v.get() {
            Some((last, mono)) => mono + t_ns.saturating_sub(last),
            None => 0,
        };
        v.set(Some((t_ns, mono)));
    });
}

pub fn clear() {
    V.with(|v| v.set(None));
}

/// clears the virtual clock of this thread when the scenario is over (also on unwinding)
pub struct Guard;

impl Drop for Guard {
    fn drop(&mut self) {
        clear();
    }
}

#[no_mangle]
pub unsafe extern "C" fn clock_gettime(clk: libc::clockid_t, ts: *mut libc::timespec) -> libc::c_int {
    let virt = V.try_with(Cell::get).ok().flatten();
    let ns: u128 = match (virt, clk) {
        (Some((t, _)), libc::CLOCK_REALTIME | libc::CLOCK_REALTIME_COARSE | libc::CLOCK_TAI) => u128::from(epoch_s()) * 1_000_000_000 + u128::from(t),
        (Some((_, m)), libc::CLOCK_MONOTONIC | libc::CLOCK_MONOTONIC_RAW | libc::CLOCK_MONOTONIC_COARSE | libc::CLOCK_BOOTTIME) => u128::from(MONO_BASE_S) * 1_000_000_000 + u128::from(m),
        _ => return libc::syscall(libc::SYS_clock_gettime, clk, ts) as libc::c_int,
    };
    if ts.is_null() {
        return -1;
    }
    (*ts).tv_sec = (ns / 1_000_000_000) as libc::time_t;
    (*ts).tv_nsec = (ns % 1_000_000_000) as libc::c_long;
    0
}
