//! Engine T executor: feeds an explicit event list (frames at virtual times, expiry calls) to the
//! real `Airplanes` tracker on the virtual clock (hook H1) and evaluates small reference models
//! written from the property statements C12..C15. Pure function of the scenario.

use std::collections::{BTreeMap, BTreeSet};
use std::panic::{catch_unwind, AssertUnwindSafe};
use std::time::{Duration, SystemTime};

use adsb_deku::adsb::ME;
use adsb_deku::cpr::{self, Position};
use adsb_deku::{Altitude, CPRFormat, Frame, DF, ICAO};
use rsadsb_common::{Added, AirplaneState, Airplanes};
use simcore::{short_loc, take_panic, Fnv, Outcome};

use super::{expand, TEv, TScenario};

pub const BASE_EPOCH_S: u64 = 1_700_000_000;

/// the scenario clock, for the tracker's hooked clock reads (H1) and for every other clock read
/// on this thread (`crate::vclock`, std build of the simulator only)
#[cfg(not(feature = "alloc_only"))]
fn set_clock(t_ns: u64) {
    crate::vclock::set(t_ns);
    rsadsb_common::verif_clock::set(vt(t_ns));
}

/// Diagnostics seam. The libraries log through `tracing`; whether the arguments of a log line are
/// evaluated at all depends on the subscriber the embedding program installed (`RUST_LOG`). One
/// process-wide subscriber is installed here whose verbosity is a per-thread setting taken from
/// the scenario, so "nobody listens" and "everything is listened to" are both explored. Every
/// enabled event is formatted (and thrown away), as a real subscriber would.
pub mod logsub {
    use core::cell::Cell;
    use core::fmt::Write;
    use std::sync::Once;

    use tracing::field::{Field, Visit};
    use tracing::span::{Attributes, Id, Record};
    use tracing::subscriber::Interest;
    use tracing::{Event, Level, Metadata, Subscriber};

    thread_local! {
        static LEVEL: Cell<u8> = const { Cell::new(0) };
    }

    struct Null;
    impl Write for Null {
        fn write_str(&mut self, _: &str) -> core::fmt::Result {
            Ok(())
        }
    }
    impl Visit for Null {
        fn record_debug(&mut self, _: &Field, value: &dyn core::fmt::Debug) {
            let _ = write!(self, "{value:?}");
        }
    }

    struct LevelSub;
    impl Subscriber for LevelSub {
        fn register_callsite(&self, _: &'static Metadata<'static>) -> Interest {
            Interest::sometimes()
        }
        fn enabled(&self, m: &Metadata<'_>) -> bool {
            let rank = match *m.level() {
                Level::ERROR => 1,
                Level::WARN => 2,
                Level::INFO => 3,
                Level::DEBUG => 4,
                Level::TRACE => 5,
            };
            rank <= LEVEL.with(Cell::get)
        }
        fn new_span(&self, a: &Attributes<'_>) -> Id {
            a.record(&mut Null);
            Id::from_u64(1)
        }
        fn record(&self, _: &Id, r: &Record<'_>) {
            r.record(&mut Null);
        }
        fn record_follows_from(&self, _: &Id, _: &Id) {}
        fn event(&self, e: &Event<'_>) {
            e.record(&mut Null);
        }
        fn enter(&self, _: &Id) {}
        fn exit(&self, _: &Id) {}
    }

    static INSTALL: Once = Once::new();

    /// verbosity for the scenario that runs next on this thread (0 = nobody listens)
    pub fn set_level(l: u8) {
        INSTALL.call_once(|| {
            let _ = tracing::subscriber::set_global_default(LevelSub);
        });
        LEVEL.with(|c| c.set(l));
    }
}

thread_local! {
    /// the date scenario time 0 falls on (seconds since 1970), per worker thread
    static EPOCH_S: std::cell::Cell<u64> = const { std::cell::Cell::new(BASE_EPOCH_S) };
}

/// the date this thread's scenario runs at (`TScenario.epoch_s`; 0 = the default epoch)
pub fn set_epoch(s: u64) {
    EPOCH_S.with(|e| e.set(if s == 0 { BASE_EPOCH_S } else { s }));
}

pub fn epoch_s() -> u64 {
    EPOCH_S.with(std::cell::Cell::get)
}

pub fn vt(t_ns: u64) -> SystemTime {
    SystemTime::UNIX_EPOCH + Duration::from_secs(epoch_s()) + Duration::from_nanos(t_ns)
}

type Addr = [u8; 3];

fn hexaddr(a: &Addr) -> String {
    format!("{:02x}{:02x}{:02x}", a[0], a[1], a[2])
}

#[derive(Clone, Copy, PartialEq, Eq)]
pub struct Mask {
    pub c12: bool,
    pub c13: bool,
    pub c14: bool,
    pub c15: bool,
}

impl Mask {
    pub fn only(p: &str) -> Self {
        Self { c12: p == "C12", c13: p == "C13", c14: p == "C14", c15: p == "C15" }
    }
}

enum Cls {
    Es { addr: Addr, me: ME },
    Other,
}

fn classify(df: &DF) -> Cls {
    match df {
        DF::ADSB(adsb) => Cls::Es { addr: adsb.icao.0, me: adsb.me.clone() },
        DF::TisB { cf, .. } => Cls::Es { addr: cf.aa.0, me: cf.me.clone() },
        _ => Cls::Other,
    }
}

fn bits_eq(a: &Position, b: &Position) -> bool {
    a.latitude.to_bits() == b.latitude.to_bits() && a.longitude.to_bits() == b.longitude.to_bits()
}

fn opt_bits_eq(a: &Option<Position>, b: &Option<Position>) -> bool {
    match (a, b) {
        (None, None) => true,
        (Some(x), Some(y)) => bits_eq(x, y),
        _ => false,
    }
}

fn tol(x: f64) -> f64 {
    1e-5 * x.abs() + 1e-4
}

struct Snap {
    keys: Vec<Addr>,
    recs: Vec<String>,
    coords: Vec<String>,
}

fn snap_keys(a: &Airplanes) -> Snap {
    Snap { keys: a.keys().map(|k| k.0).collect(), recs: vec![], coords: vec![] }
}

fn snap(a: &Airplanes) -> Snap {
    let mut keys = vec![];
    let mut recs = vec![];
    let mut coords = vec![];
    for (k, v) in a.iter() {
        keys.push(k.0);
        recs.push(format!("{v:?}"));
        coords.push(format!("{:?}", v.coords));
    }
    Snap { keys, recs, coords }
}

#[derive(Default)]
struct P13 {
    even: Option<Altitude>,
    odd: Option<Altitude>,
    pos: Option<Position>,
}

#[derive(Default)]
struct P14 {
    callsign: Option<String>,
    vel: Option<(f32, f32, i16)>,
    /// the latest vertical rate any report actually carried (raw field non-zero), judged from the
    /// raw field, independently of the decoder's `calculate()`
    vr_carried: Option<i16>,
    /// previously published positions (superseded or dropped), in order; bool = dropped by a clear
    hist: Vec<(Position, bool)>,
    cur: Option<Position>,
    cur_republished: bool,
    coords_dbg: String,
    /// latest even / odd position report since the record was last cleared
    even: Option<Altitude>,
    odd: Option<Altitude>,
}

#[derive(PartialEq, Clone, Copy, Debug)]
enum Dec {
    Accept,
    Reject,
    Either,
}

fn decide(rx: (f64, f64), max_range: f64, prev: &Option<Position>, cand: &Position) -> Dec {
    if !(-90.0..=90.0).contains(&cand.latitude) || !cand.latitude.is_finite() || !cand.longitude.is_finite() {
        return Dec::Either;
    }
    let d = wire::great_circle_km(rx, (cand.latitude, cand.longitude));
    if !d.is_finite() || d > 20_000.0 {
        return Dec::Either;
    }
    let mut band = false;
    let mut reject = false;
    if (d - max_range).abs() <= tol(d) {
        band = true;
    } else if d > max_range {
        reject = true;
    }
    if let Some(p) = prev {
        if !(-90.0..=90.0).contains(&p.latitude) {
            return Dec::Either;
        }
        let j = wire::great_circle_km((p.latitude, p.longitude), (cand.latitude, cand.longitude));
        if !j.is_finite() || j > 20_000.0 {
            return Dec::Either;
        }
        if (j - 100.0).abs() <= tol(j) {
            band = true;
        } else if j > 100.0 {
            reject = true;
        }
    }
    if reject {
        // a definite reject by one criterion wins even if the other is inside its band
        Dec::Reject
    } else if band {
        Dec::Either
    } else {
        Dec::Accept
    }
}

/// NFA match of the track's positioned entries against the expected sequence `e` of
/// (position, optional) elements: every element matches one or more consecutive equal track
/// entries (consecutive duplicates collapse), optional elements may be skipped.
fn track_matches(track: &[Position], e: &[(Position, bool)]) -> bool {
    let n = e.len();
    // state = number of elements of `e` consumed so far (the last consumed one may repeat)
    let mut states: BTreeSet<usize> = BTreeSet::new();
    states.insert(0);
    for t in track {
        let mut next = BTreeSet::new();
        for &i in &states {
            if i > 0 && bits_eq(&e[i - 1].0, t) {
                next.insert(i);
            }
            let mut k = i;
            while k < n {
                if bits_eq(&e[k].0, t) {
                    next.insert(k + 1);
                }
                if !e[k].1 {
                    break;
                }
                k += 1;
            }
        }
        if next.is_empty() {
            return false;
        }
        states = next;
    }
    states.iter().any(|&i| e[i..].iter().all(|x| x.1))
}

fn track_positions(st: &AirplaneState) -> Vec<Position> {
    st.track.as_ref().map(|t| t.iter().filter_map(|c| c.position).collect()).unwrap_or_default()
}

pub fn execute(sc: &TScenario, mask: Mask) -> Outcome {
    #[cfg(not(feature = "alloc_only"))]
    let _clock = crate::vclock::Guard;
    let mut out = Outcome::default();
    let mut h = Fnv::new();
    let rx = (sc.lat, sc.lon);
    let prop = if mask.c12 {
        "C12"
    } else if mask.c13 {
        "C13"
    } else if mask.c14 {
        "C14"
    } else {
        "C15"
    };
    set_epoch(sc.epoch_s);
    if sc.epoch_s != 0 {
        out.fault("date_next_to_a_power_of_two_of_the_clock");
    }
    logsub::set_level(sc.log_level);
    match sc.log_level {
        0 => {}
        1..=3 => out.fault("diagnostics_on_up_to_info"),
        4 => out.fault("diagnostics_on_debug"),
        _ => out.fault("diagnostics_on_trace"),
    }
    let r = catch_unwind(AssertUnwindSafe(|| run(sc, mask, rx, &mut out, &mut h)));
    logsub::set_level(0);
    if r.is_err() {
        let (loc, msg) = take_panic().unwrap_or_default();
        let loc = short_loc(&loc);
        if loc.starts_with("/verif") || loc.contains("crates/sim") {
            simcore::harness_error(&format!("simulator bug: panic at {loc}: {msg}"));
        }
        out.violate(format!("{prop}:panic:{loc}"), format!("the tracker or decoder panicked at {loc}: {msg}"));
    }
    out.trace_hash = h.finish();
    out
}

#[allow(clippy::too_many_lines)]
fn run(sc: &TScenario, mask: Mask, rx: (f64, f64), out: &mut Outcome, h: &mut Fnv) {
    let mut tr = Airplanes::new();
    // "no range limit": JSON cannot carry an infinity, 1e308 stands for it in scenarios
    let max_range = if sc.max_range >= 1e300 { f64::INFINITY } else { sc.max_range };
    if max_range.is_infinite() {
        out.probe("infinite_range_limit");
    }
    let need_snap = mask.c12 || mask.c13 || mask.c15;
    let mut m12: BTreeMap<Addr, u32> = BTreeMap::new();
    let mut m13: BTreeMap<Addr, P13> = BTreeMap::new();
    let mut m14: BTreeMap<Addr, P14> = BTreeMap::new();
    let mut last_heard: BTreeMap<Addr, u64> = BTreeMap::new();
    let mut ever_removed: BTreeSet<Addr> = BTreeSet::new();
    let mut prev_t: Option<u64> = None;
    let mut ever_seen: BTreeSet<Addr> = BTreeSet::new();
    // for the isolation replay: per address the indices of the events filed under it
    let mut filed: BTreeMap<Addr, Vec<usize>> = BTreeMap::new();

    let events = expand(&sc.events);
    // very long runs: full Debug renderings of every record around every event are unaffordable;
    // frames are judged on keys, counts and the touched record, expiry calls in full
    let light = events.len() > 3000;
    for (idx, ev) in events.iter().enumerate() {
        let t = match ev {
            TEv::Frame { t, .. } | TEv::Prune { t, .. } | TEv::Burst { t, .. } => *t,
        };
        if let Some(p) = prev_t {
            if t < p {
                out.fault("clock_step_backwards");
            } else if t == p {
                out.fault("zero_time_advance");
            } else if t - p >= 10_000_000_000 {
                out.fault("clock_jump_forward_ge_10s");
            }
        }
        prev_t = Some(t);
        out.virtual_ns = out.virtual_ns.max(t);
        out.steps += 1;
        #[cfg(not(feature = "alloc_only"))]
        set_clock(t);
        match ev {
            TEv::Frame { hex, note, .. } => {
                for n in note.split(',') {
                    match n {
                        "dup" => out.fault("duplicate_delivery"),
                        "delayed" => out.fault("delay_reorder"),
                        "corrupt" => out.fault("bit_corruption"),
                        "garbage" => out.fault("garbage_frame"),
                        "teleport" => out.fault("teleport"),
                        "collide" => out.fault("address_collision"),
                        "lossy" => out.fault("loss_before_this_frame"),
                        _ => {}
                    }
                }
                let bytes = wire::unhex(hex);
                let frame = match Frame::from_bytes(&bytes) {
                    Ok(f) => f,
                    Err(_) => {
                        h.str("undecodable");
                        out.probe("undecodable_frame_skipped");
                        continue;
                    }
                };
                let df = frame.df.clone();
                let cls = classify(&df);
                // C14's checks read the records directly; the full Debug rendering of every record
                // around every event is only needed by the other models
                let before = if need_snap && !light { snap(&tr) } else { snap_keys(&tr) };
                let ret = tr.action(frame, rx, max_range);
                let after = if need_snap && !light { snap(&tr) } else { snap_keys(&tr) };
                h.str(hex);
                h.u64(t);
                h.u64(u64::from(ret == Added::Yes));
                h.u64(after.keys.len() as u64);
                match &cls {
                    Cls::Other => {
                        if mask.c12 {
                            if ret != Added::No {
                                out.violate("C12:non-es-frame-reported-added", format!("event #{idx} {hex}: a frame of another downlink format returned Added::Yes\n{df:?}"));
                            }
                            if before.keys != after.keys || before.recs != after.recs {
                                out.violate("C12:non-es-frame-changed-state", format!("event #{idx} {hex}: a frame of another downlink format changed the tracker\n{df:?}\nbefore keys {:?}\nafter keys {:?}", before.keys.iter().map(hexaddr).collect::<Vec<_>>(), after.keys.iter().map(hexaddr).collect::<Vec<_>>()));
                            }
                            // does it carry a tracked address in its parity overlay?
                            out.probe("non_es_frame");
                        }
                        if mask.c15 {
                            out.probe("non_es_frame_must_not_refresh");
                        }
                    }
                    Cls::Es { addr, me } => {
                        filed.entry(*addr).or_default().push(idx);
                        let was_tracked = before.keys.contains(addr);
                        if matches!(df, DF::TisB { .. }) {
                            out.probe("df18_frame");
                            if was_tracked {
                                out.probe("df18_for_known_address");
                            }
                        }
                        if mask.c12 {
                            let expect_added = !m12.contains_key(addr);
                            if (ret == Added::Yes) != expect_added {
                                out.violate(
                                    if expect_added { "C12:new-address-not-reported-added" } else { "C12:known-address-reported-added" },
                                    format!("event #{idx} {hex}: address {} was {}tracked before, action returned {ret:?}\n{df:?}", hexaddr(addr), if expect_added { "not " } else { "" }),
                                );
                            }
                            *m12.entry(*addr).or_insert(0) += 1;
                            if !expect_added {
                                out.probe("second_frame_of_address");
                            }
                            if ever_removed.contains(addr) && expect_added {
                                out.probe("re_add_after_expiry");
                            }
                            // no key other than addr may appear, none may disappear
                            let want: Vec<Addr> = m12.keys().copied().collect();
                            if after.keys != want {
                                out.violate("C12:tracked-set-differs", format!("event #{idx} {hex} (address {}): tracked keys {:?}, expected {:?}", hexaddr(addr), after.keys.iter().map(hexaddr).collect::<Vec<_>>(), want.iter().map(hexaddr).collect::<Vec<_>>()));
                            }
                            // isolation, per event: no record other than addr's may change
                            for (k, r) in before.keys.iter().zip(before.recs.iter()) {
                                if k != addr {
                                    if let Some(j) = after.keys.iter().position(|x| x == k) {
                                        if &after.recs[j] != r {
                                            out.violate("C12:other-record-changed", format!("event #{idx} {hex} from {} changed the record of {}", hexaddr(addr), hexaddr(k)));
                                        }
                                    }
                                }
                            }
                        }
                        let st = tr.get(ICAO(*addr));
                        if mask.c15 {
                            last_heard.insert(*addr, t);
                            if ever_removed.contains(addr) && !was_tracked {
                                out.probe("heard_again_after_expiry");
                                if ret != Added::Yes {
                                    out.violate("C15:re-heard-not-reported-added", format!("event #{idx} {hex}: {} was expired earlier and is heard again, action returned {ret:?}", hexaddr(addr)));
                                }
                                // must start from an empty record: same as a fresh tracker fed this frame
                                let mut fresh = Airplanes::new();
                                if let Ok(f2) = Frame::from_bytes(&bytes) {
                                    let _ = fresh.action(f2, rx, max_range);
                                }
                                let a = st.map(|s| format!("{s:?}"));
                                let b = fresh.get(ICAO(*addr)).map(|s| format!("{s:?}"));
                                if a != b {
                                    out.violate("C15:re-added-record-not-empty", format!("event #{idx} {hex}: {} re-added after expiry does not start from an empty record\n got      {a:?}\n expected {b:?}", hexaddr(addr)));
                                }
                            }
                        }
                        if !was_tracked {
                            // a (re)added aircraft starts fresh in every model
                            m13.remove(addr);
                            m14.remove(addr);
                        }
                        let Some(st) = st else {
                            if mask.c12 {
                                out.violate("C12:es-frame-left-no-record", format!("event #{idx} {hex}: no record for {} after its frame", hexaddr(addr)));
                            }
                            continue;
                        };
                        ever_seen.insert(*addr);
                        if mask.c13 {
                            check_c13(idx, hex, addr, me, rx, max_range, st, m13.entry(*addr).or_default(), out, was_tracked, &before);
                        }
                        if mask.c14 {
                            check_c14_attrs(idx, hex, addr, me, st, m14.entry(*addr).or_default(), out);
                        }
                    }
                }
                if mask.c12 {
                    if !light || idx % 256 == 0 || idx + 1 == events.len() {
                        check_c12_accounting(idx, &tr, &m12, out);
                    } else if let Cls::Es { addr, .. } = &cls {
                        // light mode: the touched record and the size of the set
                        let got = tr.get(ICAO(*addr)).map(|s| s.num_messages);
                        if got != m12.get(addr).copied() || tr.len() != m12.len() {
                            check_c12_accounting(idx, &tr, &m12, out);
                        }
                    }
                    if tr.len() > 4096 {
                        out.probe("more_than_4096_tracked_at_once");
                    }
                    if let Cls::Es { addr, .. } = &cls {
                        if m12.get(addr).copied().unwrap_or(0) >= 100_000 {
                            out.probe("contact_with_100000_messages");
                        }
                    }
                }
                if mask.c14 {
                    check_c14_views(idx, &tr, &m14, out, idx % 64 == 63);
                    if idx % 8 == 7 {
                        check_c14_tracks(idx, &tr, &m14, out);
                    }
                }
            }
            TEv::Burst { .. } => {}
            TEv::Prune { secs, .. } => {
                // the alloc-only build has neither a clock nor expiry
                #[cfg(feature = "alloc_only")]
                {
                    let _ = secs;
                    continue;
                }
                let full = need_snap && (!light || tr.len() <= 64);
                let before = if full { snap(&tr) } else { snap_keys(&tr) };
                #[cfg(not(feature = "alloc_only"))]
                tr.prune(*secs);
                let after = if full { snap(&tr) } else { snap_keys(&tr) };
                h.str("prune");
                h.u64(t);
                h.u64(*secs);
                h.u64(after.keys.len() as u64);
                if before.keys.is_empty() {
                    out.probe("prune_on_empty_tracker");
                }
                if !before.keys.is_empty() && after.keys.is_empty() {
                    out.probe("all_expire_at_once");
                }
                if after.keys.len() < before.keys.len() {
                    out.probe("expiry_removed_some");
                }
                // survivors must be a subset, untouched
                let mut bad_new = vec![];
                for k in &after.keys {
                    if !before.keys.contains(k) {
                        bad_new.push(hexaddr(k));
                    }
                }
                if !bad_new.is_empty() {
                    let s = format!("event #{idx} prune({secs}) added keys {bad_new:?}");
                    if mask.c12 {
                        out.violate("C12:expiry-added-keys", s.clone());
                    }
                    if mask.c15 {
                        out.violate("C15:expiry-added-keys", s);
                    }
                }
                if mask.c14 {
                    // judge tracks of records about to vanish from the monitor
                    check_c14_tracks_snapshot(idx, &before, &after, out);
                }
                if mask.c15 {
                    let empty = String::new();
                    for (ki, k) in before.keys.iter().enumerate() {
                        let r = before.recs.get(ki).unwrap_or(&empty);
                        let lh = *last_heard.get(k).unwrap_or(&0);
                        let survived = after.keys.contains(k);
                        if t < lh {
                            // clock stepped backwards past last-heard: the statement is silent
                            out.probe("prune_with_clock_before_last_heard");
                        } else {
                            let elapsed = t - lh;
                            let limit = (*secs as u128) * 1_000_000_000u128;
                            let expect_survive = (elapsed as u128) < limit;
                            if elapsed as u128 == limit {
                                out.probe("elapsed_equals_threshold_exactly");
                            }
                            if elapsed as u128 + 1 == limit {
                                out.probe("elapsed_one_ns_below_threshold");
                            }
                            if survived != expect_survive {
                                out.violate(
                                    if expect_survive { "C15:removed-too-early" } else { "C15:not-removed-when-due" },
                                    format!("event #{idx} prune({secs}) at t={t}ns: {} last heard at {lh}ns (elapsed {elapsed}ns) {} but should {}", hexaddr(k), if survived { "survived" } else { "was removed" }, if expect_survive { "survive" } else { "be removed" }),
                                );
                            }
                        }
                        if survived && !after.recs.is_empty() {
                            let j = after.keys.iter().position(|x| x == k).unwrap();
                            if &after.recs[j] != r {
                                out.violate("C15:survivor-record-changed", format!("event #{idx} prune({secs}): record of survivor {} changed", hexaddr(k)));
                            }
                        }
                    }
                }
                for k in &before.keys {
                    if !after.keys.contains(k) {
                        ever_removed.insert(*k);
                        m12.remove(k);
                        m13.remove(k);
                        m14.remove(k);
                    }
                }
                if mask.c12 {
                    check_c12_accounting(idx, &tr, &m12, out);
                }
            }
        }
        if out.violation.is_some() {
            break;
        }
    }
    if out.violation.is_none() && mask.c14 {
        check_c14_tracks(events.len(), &tr, &m14, out);
    }
    if out.violation.is_none() && mask.c12 && filed.len() <= 64 {
        isolation_replay(&events, max_range, rx, &tr, &filed, out);
    }
    if ever_seen.len() >= 100 {
        out.probe("more_than_100_distinct_addresses");
    }
    let mut s = Fnv::new();
    s.u64(tr.len() as u64);
    s.u64(ever_removed.len() as u64);
    s.u64(ever_seen.len() as u64);
    s.u64(tr.all_position().len() as u64);
    out.states.push(s.finish());
}

fn check_c12_accounting(idx: usize, tr: &Airplanes, m12: &BTreeMap<Addr, u32>, out: &mut Outcome) {
    let keys: Vec<Addr> = tr.keys().map(|k| k.0).collect();
    let want: Vec<Addr> = m12.keys().copied().collect();
    if keys != want {
        out.violate("C12:tracked-set-differs", format!("after event #{idx}: tracked keys {:?}, expected {:?}", keys.iter().map(hexaddr).collect::<Vec<_>>(), want.iter().map(hexaddr).collect::<Vec<_>>()));
        return;
    }
    if tr.len() != keys.len() || tr.is_empty() != keys.is_empty() || tr.iter().count() != keys.len() {
        out.violate("C12:len-inconsistent", format!("after event #{idx}: len {} is_empty {} keys {}", tr.len(), tr.is_empty(), keys.len()));
    }
    for (k, c) in m12 {
        let got = tr.get(ICAO(*k)).map(|s| s.num_messages);
        if got != Some(*c) {
            out.violate("C12:message-count-differs", format!("after event #{idx}: {} has num_messages {got:?}, {} extended-squitter/TIS-B frames were received from it since it was (re)added", hexaddr(k), c));
            return;
        }
    }
}

#[allow(clippy::too_many_arguments)]
fn check_c13(idx: usize, hex: &str, addr: &Addr, me: &ME, rx: (f64, f64), max_range: f64, st: &AirplaneState, p: &mut P13, out: &mut Outcome, was_tracked: bool, before: &Snap) {
    let c = &st.coords;
    let alt = match me {
        ME::AirbornePositionBaroAltitude(a) | ME::AirbornePositionGNSSAltitude(a) => a,
        _ => {
            // any other frame must leave the position record alone
            let now = format!("{c:?}");
            if was_tracked && !before.coords.is_empty() {
                let j = before.keys.iter().position(|k| k == addr).unwrap();
                if before.coords[j] != now {
                    out.violate("C13:non-position-frame-changed-position-record", format!("event #{idx} {hex}: a non-position frame changed the position record of {}\nnow {now}", hexaddr(addr)));
                }
            } else if c.position.is_some() || c.kilo_distance.is_some() || c.altitudes != [None, None] {
                out.violate("C13:non-position-frame-changed-position-record", format!("event #{idx} {hex}: fresh record of {} has position data {now}", hexaddr(addr)));
            }
            return;
        }
    };
    match alt.odd_flag {
        CPRFormat::Even => {
            if p.even.is_some() {
                out.probe("same_parity_replaces_stored_report");
            }
            p.even = Some(*alt);
        }
        CPRFormat::Odd => {
            if p.odd.is_some() {
                out.probe("same_parity_replaces_stored_report");
            }
            p.odd = Some(*alt);
        }
    }
    let stored: Vec<Altitude> = c.altitudes.iter().flatten().copied().collect();
    let cleared = c.position.is_none() && c.kilo_distance.is_none() && stored.is_empty();
    let who = hexaddr(addr);
    match (p.even, p.odd) {
        (Some(e), Some(o)) => {
            let ca = cpr::get_position((&e, &o));
            let cb = cpr::get_position((&o, &e));
            let (Some(ca), Some(cb)) = (ca, cb) else {
                out.violate("C13:pairing-unavailable", format!("event #{idx} {hex}: pairing of an even and an odd report returned None"));
                return;
            };
            let da = decide(rx, max_range, &p.pos, &ca);
            let db = decide(rx, max_range, &p.pos, &cb);
            let dec = if da == db { da } else { Dec::Either };
            let published_ok = |out: &mut Outcome| -> bool {
                // a publication must be the pairing of exactly the two most recent reports
                let Some(pos) = c.position else { return false };
                if !(bits_eq(&pos, &ca) || bits_eq(&pos, &cb)) {
                    out.violate("C13:published-position-is-not-the-pairing", format!("event #{idx} {hex}: {who} published {pos:?}, pairing of the latest even/odd reports gives {ca:?} / {cb:?}\neven {e:?}\nodd {o:?}"));
                    return true;
                }
                let mut s = stored.clone();
                s.sort_by_key(|a| a.odd_flag as u8);
                if s != vec![e, o] {
                    out.violate("C13:stored-reports-differ", format!("event #{idx} {hex}: {who} stores {s:?}, latest reports are even {e:?} odd {o:?}"));
                    return true;
                }
                match c.kilo_distance {
                    None => {
                        out.violate("C13:published-without-distance", format!("event #{idx} {hex}: {who} has a position but no distance"));
                    }
                    Some(kd) => {
                        if (-90.0..=90.0).contains(&pos.latitude) {
                            let d = wire::great_circle_km(rx, (pos.latitude, pos.longitude));
                            if d <= 20_000.0 && (kd - d).abs() > tol(d) {
                                out.violate("C13:distance-is-not-great-circle", format!("event #{idx} {hex}: {who} at {pos:?}, receiver {rx:?}: reported distance {kd} km, great-circle distance (R=6371 km) {d} km, difference {:.6} km", (kd - d).abs()));
                            }
                            if pos.latitude.abs() > 85.0 {
                                out.probe("publication_at_high_latitude");
                            }
                            if (pos.longitude - rx.1).abs() > 180.0 {
                                out.probe("publication_across_antimeridian");
                            }
                        }
                    }
                }
                true
            };
            match dec {
                Dec::Accept => {
                    out.probe("pair_accepted");
                    if p.pos.is_some() {
                        out.probe("accept_with_previous_position");
                    }
                    if cleared {
                        let d = wire::great_circle_km(rx, (ca.latitude, ca.longitude));
                        out.violate("C13:plausible-position-not-published", format!("event #{idx} {hex}: {who}: pairing {ca:?} is {d:.4} km from the receiver (max {max_range}) and within 100 km of the previous position {:?}, but the record was cleared", p.pos));
                    } else if !published_ok(out) {
                        out.violate("C13:plausible-position-not-published", format!("event #{idx} {hex}: {who}: expected publication of {ca:?}, record is {c:?}"));
                    }
                }
                Dec::Reject => {
                    let d = wire::great_circle_km(rx, (ca.latitude, ca.longitude));
                    if d > max_range {
                        out.probe("range_reject");
                    } else {
                        out.probe("jump_reject");
                    }
                    if !cleared {
                        let j = p.pos.map(|q| wire::great_circle_km((q.latitude, q.longitude), (ca.latitude, ca.longitude)));
                        out.violate(
                            if c.position.is_some() { "C13:implausible-position-published" } else { "C13:record-not-fully-cleared" },
                            format!("event #{idx} {hex}: {who}: pairing {ca:?} is {d:.4} km from the receiver (max {max_range}), jump from previous {j:?} km; the whole position record should be cleared but is {c:?}"),
                        );
                    }
                }
                Dec::Either => {
                    out.probe("threshold_band_or_dont_care");
                    if !cleared && !published_ok(out) {
                        out.violate("C13:record-neither-published-nor-cleared", format!("event #{idx} {hex}: {who}: record is {c:?}"));
                    }
                }
            }
            if cleared {
                if p.pos.is_some() {
                    out.probe("clear_of_published_position");
                }
                *p = P13::default();
                p.pos = None;
            } else {
                if p.pos.is_none() && c.position.is_some() {
                    out.probe("acquisition");
                }
                p.pos = c.position;
            }
        }
        (one_e, one_o) => {
            let one = one_e.or(one_o).unwrap();
            if c.position.is_some() || c.kilo_distance.is_some() {
                out.violate("C13:position-without-pair", format!("event #{idx} {hex}: {who} has only one stored report since its last clear but publishes {c:?}"));
            } else if stored != vec![one] {
                out.violate("C13:stored-reports-differ", format!("event #{idx} {hex}: {who} stores {stored:?}, expected only {one:?}"));
            }
        }
    }
}

fn check_c14_attrs(idx: usize, hex: &str, addr: &Addr, me: &ME, st: &AirplaneState, p: &mut P14, out: &mut Outcome) {
    let who = hexaddr(addr);
    match me {
        ME::AircraftIdentification(id) => {
            if p.callsign.as_ref().map(|c| c != &id.cn) == Some(true) {
                out.probe("callsign_changed");
            }
            p.callsign = Some(id.cn.clone());
        }
        ME::AirbornePositionBaroAltitude(a) | ME::AirbornePositionGNSSAltitude(a) => match a.odd_flag {
            CPRFormat::Even => p.even = Some(*a),
            CPRFormat::Odd => p.odd = Some(*a),
        },
        ME::AirborneVelocity(v) => match v.calculate() {
            Some((hd, gs, vr)) => {
                p.vel = Some((hd, gs as f32, vr));
                // a raw vertical-rate field of 0 means "no vertical rate information": whatever
                // the decoder reports for it, the record must keep the last rate that was carried
                if v.vrate_value != 0 {
                    p.vr_carried = Some((v.vrate_value as i16 - 1) * 64 * v.vrate_sign.value());
                } else if let Some(pv) = p.vel.as_mut() {
                    out.probe("velocity_report_without_vertical_rate_decoded_as_valid");
                    match p.vr_carried {
                        Some(keep) => pv.2 = keep,
                        None => {
                            // no rate was ever carried: the record must not show one
                            if st.vert_speed.is_some() {
                                out.violate("C14:vertical-rate-from-a-report-that-carried-none", format!("event #{idx} {hex}: {who} vertical rate {:?}, but no report so far carried a vertical rate (raw field 0 = no information)", st.vert_speed));
                            }
                            // heading / speed of this report are judged below, the rate is not
                            pv.2 = st.vert_speed.unwrap_or(0);
                        }
                    }
                }
            }
            None => {
                if p.vel.is_some() {
                    out.probe("velocity_without_information_after_valid");
                }
            }
        },
        _ => {}
    }
    if st.callsign != p.callsign {
        out.violate("C14:callsign-not-latest", format!("event #{idx} {hex}: {who} callsign {:?}, most recent identification said {:?}", st.callsign, p.callsign));
    }
    let got = match (st.heading, st.speed, st.vert_speed) {
        (Some(a), Some(b), Some(c)) => Some((a, b, c)),
        (None, None, None) => None,
        (Some(a), Some(b), None) if p.vr_carried.is_none() && p.vel.is_some() => Some((a, b, p.vel.unwrap().2)),
        _ => {
            out.violate("C14:velocity-partially-set", format!("event #{idx} {hex}: {who} heading {:?} speed {:?} vertical {:?}", st.heading, st.speed, st.vert_speed));
            return;
        }
    };
    let same = match (got, p.vel) {
        (None, None) => true,
        (Some(a), Some(b)) => a.0.to_bits() == b.0.to_bits() && a.1.to_bits() == b.1.to_bits() && a.2 == b.2,
        _ => false,
    };
    if !same {
        out.violate("C14:velocity-not-latest", format!("event #{idx} {hex}: {who} (heading, speed, vertical rate) = {got:?}, most recent velocity report that carried them said {:?}", p.vel));
    }
    // published-position monitor for the track clause
    let c = &st.coords;
    if c.position.is_none() && c.altitudes == [None, None] {
        // the record was cleared: pairing starts over
        p.even = None;
        p.odd = None;
    }
    let dbg = format!("{c:?}");
    if !opt_bits_eq(&c.position, &p.cur) {
        if let Some(old) = p.cur {
            p.hist.push((old, c.position.is_none()));
        }
        p.cur = c.position;
        p.cur_republished = false;
    } else if c.position.is_some() && dbg != p.coords_dbg {
        p.cur_republished = true;
        out.probe("current_position_republished");
    }
    p.coords_dbg = dbg;
}

fn check_c14_views(idx: usize, tr: &Airplanes, m14: &BTreeMap<Addr, P14>, out: &mut Outcome, force_render: bool) {
    let mut track_total = 0usize;
    let mut expect_pos = vec![];
    let mut with_details = vec![];
    for (k, st) in tr.iter() {
        let c = &st.coords;
        if c.position.is_some() != c.kilo_distance.is_some() {
            out.violate("C14:distance-iff-position-broken", format!("after event #{idx}: {} has position {:?} but distance {:?}", hexaddr(&k.0), c.position, c.kilo_distance));
            return;
        }
        if let Some(p) = c.position {
            expect_pos.push((k.0, p));
        }
        let tlen = st.track.as_ref().map(Vec::len).unwrap_or(0);
        track_total += tlen;
        if tlen > 2048 {
            out.probe("track_longer_than_2048");
        }
        let det = tr.aircraft_details(*k);
        let alts: Vec<Option<u16>> = c.altitudes.iter().map(|a| a.and_then(|a| a.alt)).collect();
        match det {
            Some(d) => {
                with_details.push(k.0);
                out.probe("details_available");
                if c.position.is_none() || c.kilo_distance.is_none() {
                    out.violate("C14:details-without-position", format!("after event #{idx}: {} has details but position {:?} distance {:?}", hexaddr(&k.0), c.position, c.kilo_distance));
                    return;
                }
                if let Some(p) = m14.get(&k.0) {
                    // "one of the currently paired position reports" = the latest even / odd report
                    let latest = [p.even.and_then(|a| a.alt), p.odd.and_then(|a| a.alt)];
                    if (p.even.is_some() || p.odd.is_some()) && !latest.contains(&Some(d.altitude)) {
                        out.violate("C14:details-altitude-not-from-the-latest-reports", format!("after event #{idx}: {} details altitude {} but the most recent even / odd position reports carry {latest:?}", hexaddr(&k.0), d.altitude));
                        return;
                    }
                }
                if !alts.contains(&Some(d.altitude)) {
                    out.violate("C14:details-altitude-not-from-paired-reports", format!("after event #{idx}: {} details altitude {} but the stored reports carry {alts:?}", hexaddr(&k.0), d.altitude));
                    return;
                }
                if !bits_eq(&d.position, &c.position.unwrap()) || d.kilo_distance.to_bits() != c.kilo_distance.unwrap().to_bits() || d.heading.map(f32::to_bits) != st.heading.map(f32::to_bits) {
                    out.violate("C14:details-disagree-with-record", format!("after event #{idx}: {} details {d:?} vs record {st:?}", hexaddr(&k.0)));
                    return;
                }
                if d.track != st.track {
                    out.violate("C14:details-disagree-with-record", format!("after event #{idx}: {} details track differs from record track", hexaddr(&k.0)));
                    return;
                }
            }
            None => {
                let complete = c.position.is_some() && c.kilo_distance.is_some() && alts.len() == 2 && alts.iter().all(Option::is_some);
                if complete {
                    out.violate("C14:details-missing-for-complete-record", format!("after event #{idx}: {} has position, distance and altitudes {alts:?} but no details", hexaddr(&k.0)));
                    return;
                }
                if c.position.is_some() {
                    out.probe("position_without_details_altitude_missing");
                }
            }
        }
    }
    let got = tr.all_position();
    let same = got.len() == expect_pos.len() && got.iter().zip(expect_pos.iter()).all(|(a, b)| a.0 .0 == b.0 && bits_eq(&a.1, &b.1));
    if !same {
        out.violate("C14:position-list-differs", format!("after event #{idx}: all_position() = {got:?}, records with a position: {expect_pos:?}"));
        return;
    }
    // the rendering lists exactly the aircraft with details (it renders every track, so with very
    // long tracks it is only judged every 64th event)
    if track_total > 400 && !force_render {
        return;
    }
    let text = tr.to_string();
    let listed: Vec<String> = text.lines().map(|l| l.split(':').next().unwrap_or("").to_string()).collect();
    let want: Vec<String> = with_details.iter().map(hexaddr).collect();
    if listed != want {
        out.violate("C14:rendering-lists-wrong-aircraft", format!("after event #{idx}: rendering lists {listed:?}, aircraft with details: {want:?}"));
    }
}

fn check_c14_tracks(idx: usize, tr: &Airplanes, m14: &BTreeMap<Addr, P14>, out: &mut Outcome) {
    for (k, st) in tr.iter() {
        let Some(p) = m14.get(&k.0) else { continue };
        let tp = track_positions(st);
        if tp.len() >= 3 {
            out.probe("track_with_three_positions");
        }
        let mut e = p.hist.clone();
        if p.cur_republished {
            if let Some(c) = p.cur {
                e.push((c, true));
            }
        }
        if !track_matches(&tp, &e) {
            out.violate(
                "C14:track-is-not-the-previously-published-positions",
                format!(
                    "after event #{idx}: {} track (positioned entries) {:?}\npreviously published (true = dropped by a clear, optional): {:?}\ncurrent {:?} republished {}",
                    hexaddr(&k.0),
                    tp.iter().map(|p| (p.latitude, p.longitude)).collect::<Vec<_>>(),
                    p.hist.iter().map(|(p, o)| (p.latitude, p.longitude, *o)).collect::<Vec<_>>(),
                    p.cur.map(|p| (p.latitude, p.longitude)),
                    p.cur_republished
                ),
            );
            return;
        }
    }
}

fn check_c14_tracks_snapshot(_idx: usize, _before: &Snap, _after: &Snap, _out: &mut Outcome) {
    // tracks are judged every 8th event and at the end of the run; records removed by an expiry
    // in between were last judged at most 7 events earlier
}

/// Metamorphic isolation check: replaying only the frames filed under one address (same virtual
/// times, same expiry calls, same receiver) into a fresh tracker must give the identical record.
fn isolation_replay(events: &[TEv], max_range: f64, rx: (f64, f64), tr: &Airplanes, filed: &BTreeMap<Addr, Vec<usize>>, out: &mut Outcome) {
    if filed.len() < 2 {
        return;
    }
    out.probe("isolation_replay_with_interleaved_traffic");
    for (addr, idxs) in filed {
        let mut solo = Airplanes::new();
        let mut it = idxs.iter().peekable();
        for (i, ev) in events.iter().enumerate() {
            match ev {
                TEv::Burst { .. } => {}
                TEv::Prune { t, secs } => {
                    #[cfg(not(feature = "alloc_only"))]
                    {
                        set_clock(*t);
                        solo.prune(*secs);
                    }
                    let _ = (t, secs);
                }
                TEv::Frame { t, hex, .. } => {
                    if it.peek() == Some(&&i) {
                        it.next();
                        #[cfg(not(feature = "alloc_only"))]
                        set_clock(*t);
                        let _ = t;
                        if let Ok(f) = Frame::from_bytes(&wire::unhex(hex)) {
                            let _ = solo.action(f, rx, max_range);
                        }
                    }
                }
            }
        }
        let a = tr.get(ICAO(*addr)).map(|s| format!("{s:?}"));
        let b = solo.get(ICAO(*addr)).map(|s| format!("{s:?}"));
        if a != b {
            out.violate("C12:record-depends-on-other-traffic", format!("record of {} after the interleaved run differs from the record after replaying only its own frames\ninterleaved: {a:?}\nalone      : {b:?}", hexaddr(addr)));
            return;
        }
    }
}
