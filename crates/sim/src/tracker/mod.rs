//! Engine T — airspace/tracker simulator (C12..C15), in-process, virtual clock.
//!
//! The generator is a small discrete-event simulation of 1..6 transmitters, a lossy radio channel
//! and a misbehaving clock; its output is an explicit, serialisable list of deliveries and expiry
//! calls at virtual times (the replay file). The executor (exec.rs) never draws from the PRNG.

pub mod exec;

use serde::{Deserialize, Serialize};
use serde_json::{json, Value};
use simcore::{drop_chunks, Engine, Outcome, Rng};

#[derive(Clone, Debug, Serialize, Deserialize, PartialEq)]
pub enum TEv {
    /// a frame delivered to the receiver at virtual time `t` (ns); `note` = fault provenance
    Frame { t: u64, hex: String, note: String },
    /// `Airplanes::prune(secs)` called at virtual time `t` (ns)
    Prune { t: u64, secs: u64 },
    /// `count` deliveries starting at `t`, `dt` ns apart, cycling through `hexes` (long contacts:
    /// tens of thousands of frames of one aircraft without a megabyte-sized scenario)
    Burst { t: u64, dt: u64, hexes: Vec<String>, count: u32 },
}

/// expand bursts into single deliveries (execution works on the expanded list)
pub fn expand(events: &[TEv]) -> Vec<TEv> {
    let mut out = Vec::with_capacity(events.len());
    for e in events {
        match e {
            TEv::Burst { t, dt, hexes, count } => {
                if hexes.is_empty() {
                    continue;
                }
                for i in 0..*count as u64 {
                    out.push(TEv::Frame { t: t + i * dt, hex: hexes[(i as usize) % hexes.len()].clone(), note: String::new() });
                }
            }
            other => out.push(other.clone()),
        }
    }
    out
}

impl TEv {
    fn t(&self) -> u64 {
        match self {
            TEv::Frame { t, .. } | TEv::Prune { t, .. } | TEv::Burst { t, .. } => *t,
        }
    }
    fn t_mut(&mut self) -> &mut u64 {
        match self {
            TEv::Frame { t, .. } | TEv::Prune { t, .. } | TEv::Burst { t, .. } => t,
        }
    }
}

#[derive(Clone, Debug, Serialize, Deserialize, PartialEq)]
pub struct TScenario {
    pub lat: f64,
    pub lon: f64,
    pub max_range: f64,
    pub events: Vec<TEv>,
    /// how much of the library's diagnostic output is switched on while the scenario runs
    /// (0 nothing, 1 ERROR .. 5 TRACE): a configuration knob like any other — what the tracker does
    /// must not depend on who is listening
    #[serde(default)]
    pub log_level: u8,
    /// the date the scenario starts at, seconds since 1970 (0 = the default, November 2023): a
    /// steady clock is still an input — dates a few seconds before a power of two of the
    /// milliseconds / seconds count (every 49.7 days, 2038, 2106) are part of the swarm
    #[serde(default)]
    pub epoch_s: u64,
}

pub struct TrackerEngine {
    pub prop: &'static str,
}

const NS: u64 = 1_000_000_000;

struct Tx {
    addr: [u8; 3],
    df18_cf: Option<u8>,
    ca: u8,
    start: (f64, f64),
    heading: f64,
    speed_kms: f64,
    alt_ft: i32,
    alt_mode: u8, // 0 normal Q=1, 1 altitude unavailable (code 0), 2 random gillham
    parity_random: bool,
    next_odd: bool,
    callsign: String,
    active_from: f64,
    active_to: f64,
    teleports: Vec<(f64, f64, f64)>, // (time, bearing, km)
}

const CALLSIGNS: [&str; 10] = ["UAL123", "DLH4AB", "N12345", "BAW9", "AFR1234", "KLM60K", "A", "SWR 8", "", ""];

fn pos_at(tx: &Tx, t: f64) -> (f64, f64) {
    let mut p = wire::destination(tx.start, tx.heading, tx.speed_kms * t);
    for (tt, b, km) in &tx.teleports {
        if t >= *tt {
            p = wire::destination(p, *b, *km);
        }
    }
    p
}

fn frame_for(tx: &Tx, me: [u8; 7]) -> Vec<u8> {
    match tx.df18_cf {
        Some(cf) => wire::df18(cf, tx.addr, me),
        None => wire::df17(tx.ca, tx.addr, me),
    }
}

fn gen_position(rng: &mut Rng, tx: &mut Tx, t: f64) -> Vec<u8> {
    let (lat, lon) = pos_at(tx, t);
    let odd = if tx.parity_random {
        rng.coin()
    } else {
        let o = tx.next_odd;
        tx.next_odd = !o;
        o
    };
    let (yz, xz) = wire::cpr_encode(lat.clamp(-89.999, 89.999), lon, odd);
    let tc = if rng.chance(0.85) { 9 + rng.below(10) as u8 } else { 20 + rng.below(3) as u8 };
    let ac = match tx.alt_mode {
        0 => wire::ac12_q(tx.alt_ft + (rng.below(5) as i32 - 2) * 25),
        1 => 0,
        _ => (rng.below(4096) as u16) & !0x10,
    };
    frame_for(tx, wire::me_airborne_position(tc, rng.below(4) as u8, rng.below(2) as u8, ac, rng.coin(), odd, yz, xz))
}

fn gen_velocity(rng: &mut Rng, tx: &Tx) -> Vec<u8> {
    if tx.addr[2] % 5 == 0 && rng.chance(0.6) {
        // a steady leg: an exact compass direction (or an exact multiple of the same vector) and
        // the same vertical rate, only the speed changes from report to report
        let speed = *rng.pick(&[120u16, 125, 240, 250, 330, 500]);
        let (ew, ns) = match tx.addr[1] % 4 {
            0 => (0, speed),
            1 => (speed, 0),
            2 => (speed, speed),
            _ => (speed / 5, 2 * (speed / 5)),
        };
        let sub = wire::sub_ground_speed(tx.addr[1] & 1, ew + 1, (tx.addr[1] >> 1) & 1, ns + 1);
        return frame_for(tx, wire::me_velocity(1, 0, sub, 0, 0, 17, 0, 3));
    }
    let st = [0u8, 1, 1, 1, 1, 1, 1, 2, 3, 3, 4, 5, 6, 7][rng.usize_below(14)];
    let kt = tx.speed_kms * 3600.0 / 1.852;
    let h = (tx.heading + rng.f64_range(-3.0, 3.0)).to_radians();
    let (vew, vns) = (kt * h.sin(), kt * h.cos());
    let mut ew = (vew.abs().round() as u16 + 1).min(1023);
    let mut ns = (vns.abs().round() as u16 + 1).min(1023);
    let mut vr: u16 = 1 + rng.below(100) as u16;
    if rng.chance(0.1) {
        ew = 0;
    }
    if rng.chance(0.1) {
        ns = 0;
    }
    if rng.chance(0.12) {
        vr = 0; // "no vertical rate information"
    }
    if rng.chance(0.03) {
        vr = 511;
    }
    let sub = if (1..=2).contains(&st) { wire::sub_ground_speed((vew < 0.0) as u8, ew, (vns < 0.0) as u8, ns) } else { rng.below(1 << 22) as u32 };
    frame_for(tx, wire::me_velocity(st, rng.below(32) as u8, sub, rng.below(2) as u8, rng.below(2) as u8, vr, rng.below(2) as u8, rng.below(128) as u8))
}

fn gen_ident(rng: &mut Rng, tx: &mut Tx) -> Vec<u8> {
    if rng.chance(0.3) {
        tx.callsign = (*rng.pick(&CALLSIGNS)).to_string();
    }
    frame_for(tx, wire::me_identification(1 + rng.below(4) as u8, rng.below(8) as u8, &tx.callsign))
}

fn gen_other_es(rng: &mut Rng, tx: &Tx) -> Vec<u8> {
    let tc = *rng.pick(&[0u8, 5, 6, 7, 8, 23, 24, 25, 26, 27, 28, 29, 30, 31]);
    let mut payload = rng.next_u64();
    if tc == 31 && rng.chance(0.7) {
        // operational status: keep the bits the decoder asserts on at zero, versions 0..2
        payload &= !(0b11u64 << 46); // CC reserved0
        payload &= !(0b11u64 << 42);
        payload &= 0x0007_FFFF_FFFF_FFFF;
    }
    frame_for(tx, wire::me_raw(tc, payload))
}

fn gen_non_es(rng: &mut Rng, addr: [u8; 3]) -> Vec<u8> {
    match rng.below(8) {
        0 => wire::short_ap(0, rng.next_u64() as u32, addr),
        1 => wire::short_ap(4, rng.next_u64() as u32, addr),
        2 => wire::short_ap(5, rng.next_u64() as u32, addr),
        3 => wire::df11(rng.below(8) as u8, addr),
        4 => {
            let mut p = [0u8; 11];
            for x in p.iter_mut() {
                *x = rng.next_u64() as u8;
            }
            wire::long_ap(16, p, addr)
        }
        5 | 6 => {
            let mut p = [0u8; 11];
            for x in p.iter_mut() {
                *x = rng.next_u64() as u8;
            }
            if rng.coin() {
                p[4] = *rng.pick(&[0x00u8, 0x10, 0x20]);
            }
            wire::long_ap(20 + rng.below(2) as u8, p, addr)
        }
        _ => {
            let mut p = [0u8; 11];
            for x in p.iter_mut() {
                *x = rng.next_u64() as u8;
            }
            wire::long_ap(24 + rng.below(8) as u8, p, addr)
        }
    }
}

struct Cfg {
    loss: f64,
    dup: f64,
    jitter: f64,
    corrupt: f64,
    garbage: f64,
    teleport: bool,
    collide: bool,
    clock_fwd: bool,
    clock_back: bool,
    zero_adv: bool,
    boundary: bool,
}

/// One aircraft tracked for a long time: more than 2048 accepted position reports, so that its
/// track outgrows any power-of-two cap; a second aircraft interleaves a little traffic.
fn generate_long_haul(rng: &mut Rng) -> TScenario {
    let lat = *rng.pick(&[35.0, -35.0, 52.0, 0.0]);
    let lon = *rng.pick(&[-80.0, 4.0, 80.0]);
    let n = 2060 + rng.usize_below(700);
    let mut tx = Tx {
        addr: [0x48, 0x40, 0xd6],
        df18_cf: None,
        ca: 5,
        start: wire::destination((lat, lon), rng.f64_range(0.0, 360.0), 30.0),
        heading: rng.f64_range(0.0, 360.0),
        speed_kms: 450.0 * 1.852 / 3600.0,
        alt_ft: 30_000,
        alt_mode: 0,
        parity_random: false,
        next_odd: rng.coin(),
        callsign: "LONG1".into(),
        active_from: 0.0,
        active_to: 1e9,
        teleports: vec![],
    };
    let other = [0xa0, 0x00, 0x01];
    let mut events = vec![];
    let mut t = 0.0f64;
    for i in 0..n {
        let bytes = gen_position(rng, &mut tx, t);
        events.push(TEv::Frame { t: (t * 1e9) as u64, hex: wire::hex(&bytes), note: String::new() });
        if i % 97 == 0 {
            let id = wire::df17(5, other, wire::me_identification(4, 0, "OTHER"));
            events.push(TEv::Frame { t: (t * 1e9) as u64 + 1000, hex: wire::hex(&id), note: String::new() });
        }
        t += 0.5;
    }
    TScenario { lat, lon, max_range: 1e9, events, log_level: 0, epoch_s: 0 }
}

/// Inbound from far away: one aircraft is heard for minutes while still beyond the range limit
/// (hundreds of consecutive rejected pairings), then crosses the limit and flies on towards the
/// receiver; sometimes it leaves again and comes back. Whatever the tracker accumulates per
/// rejection has time to saturate before the first pairing that has to be published.
fn generate_long_inbound(rng: &mut Rng) -> TScenario {
    let lat = *rng.pick(&[35.0, -35.0, 52.0, 0.0]);
    let lon = *rng.pick(&[-80.0, 4.0, 80.0, 0.0]);
    let max_range = *rng.pick(&[50.0, 100.0, 200.0]);
    // reports every 0.5 s at 450 kt (0.116 km each): n_out rejected pairings before the limit
    let n_out = *rng.pick(&[70usize, 130, 270, 300, 520]);
    let bearing = rng.f64_range(0.0, 360.0);
    let speed_kms = 450.0 * 1.852 / 3600.0;
    let start_dist = max_range + n_out as f64 * 0.5 * speed_kms;
    let mut tx = Tx {
        addr: [0x48, 0x41, 0xd7],
        df18_cf: None,
        ca: 5,
        start: wire::destination((lat, lon), bearing, start_dist),
        heading: (bearing + 180.0) % 360.0,
        speed_kms,
        alt_ft: 30_000,
        alt_mode: 0,
        parity_random: false,
        next_odd: rng.coin(),
        callsign: "INBND".into(),
        active_from: 0.0,
        active_to: 1e9,
        teleports: vec![],
    };
    let other = [0xa0, 0x00, 0x02];
    let mut events = vec![];
    let mut t = 0.0f64;
    let n = n_out + 60 + rng.usize_below(120);
    for i in 0..n {
        let bytes = gen_position(rng, &mut tx, t);
        events.push(TEv::Frame { t: (t * 1e9) as u64, hex: wire::hex(&bytes), note: String::new() });
        if i % 41 == 0 {
            let id = wire::df17(5, other, wire::me_identification(4, 0, "OTHER"));
            events.push(TEv::Frame { t: (t * 1e9) as u64 + 1000, hex: wire::hex(&id), note: String::new() });
        }
        t += 0.5;
    }
    TScenario { lat, lon, max_range, events, log_level: 0, epoch_s: 0 }
}

/// Crowded sky: a few hundred distinct addresses with a handful of frames each and expiry cycles
/// (anything that depends on the number of tracked aircraft, or on many add/expire cycles).
fn generate_crowded(rng: &mut Rng) -> TScenario {
    let lat = 35.0;
    let lon = -80.0;
    let n = 100 + rng.usize_below(200);
    let filter_t = *rng.pick(&[1u64, 2, 5]);
    let mut evs: Vec<(u64, Vec<u8>)> = vec![];
    for i in 0..n {
        let addr = if i % 7 == 0 { [(i >> 8) as u8, i as u8, 0] } else { [rng.next_u64() as u8, rng.next_u64() as u8, rng.next_u64() as u8] };
        let mut tx = Tx {
            addr,
            df18_cf: if rng.chance(0.2) { Some(rng.below(8) as u8) } else { None },
            ca: 5,
            start: wire::destination((lat, lon), rng.f64_range(0.0, 360.0), rng.f64_range(5.0, 300.0)),
            heading: rng.f64_range(0.0, 360.0),
            speed_kms: 0.2,
            alt_ft: 20_000,
            alt_mode: 0,
            parity_random: false,
            next_odd: rng.coin(),
            callsign: format!("C{i}"),
            active_from: 0.0,
            active_to: 1e9,
            teleports: vec![],
        };
        let t0 = rng.f64_range(0.0, 12.0);
        for k in 0..1 + rng.below(3) {
            let t = t0 + 0.4 * k as f64 + if rng.chance(0.2) { rng.f64_range(2.0, 8.0) } else { 0.0 };
            let bytes = match rng.below(4) {
                0 => gen_ident(rng, &mut tx),
                1 => gen_velocity(rng, &tx),
                2 => gen_position(rng, &mut tx, t),
                _ => gen_other_es(rng, &tx),
            };
            evs.push(((t * 1e9) as u64, bytes));
        }
    }
    evs.sort();
    evs.truncate(600);
    let mut events = vec![];
    for (i, (t, b)) in evs.iter().enumerate() {
        events.push(TEv::Frame { t: *t, hex: wire::hex(b), note: String::new() });
        if i % 25 == 24 {
            events.push(TEv::Prune { t: *t, secs: filter_t });
        }
    }
    // then silence: everything that is left is due in one expiry call
    let last = events.last().map(TEv::t).unwrap_or(0);
    let wait = *rng.pick(&[filter_t * NS, 10 * filter_t * NS, filter_t * NS + 1]);
    events.push(TEv::Prune { t: last + wait, secs: filter_t });
    TScenario { lat, lon, max_range: 500.0, events, log_level: 0, epoch_s: 0 }
}

/// More than 4096 aircraft tracked at once, a long silence, then new arrivals; the caller's own
/// expiry threshold is long (nothing may disappear in between).
fn generate_mega_crowd(rng: &mut Rng) -> TScenario {
    let n = 4100 + rng.usize_below(400);
    let mut events = vec![];
    let mut t = 0u64;
    let mut used = std::collections::BTreeSet::new();
    let mut fresh = |rng: &mut Rng| loop {
        let a = [rng.next_u64() as u8, rng.next_u64() as u8, rng.next_u64() as u8];
        if used.insert(a) {
            return a;
        }
    };
    for i in 0..n {
        let a = fresh(rng);
        let me = if i % 3 == 0 { wire::me_identification(4, 0, "CROWD") } else { wire::me_velocity(1, 0, wire::sub_ground_speed(0, 200, 0, 100), 0, 0, 5, 0, 3) };
        events.push(TEv::Frame { t, hex: wire::hex(&wire::df17(5, a, me)), note: String::new() });
        t += 1_000_000;
    }
    events.push(TEv::Prune { t, secs: 3600 });
    t += *rng.pick(&[299u64, 301, 400, 1000]) * NS;
    for _ in 0..20 + rng.below(60) {
        let a = fresh(rng);
        events.push(TEv::Frame { t, hex: wire::hex(&wire::df17(5, a, wire::me_identification(4, 0, "LATE"))), note: String::new() });
        t += 50_000_000;
    }
    events.push(TEv::Prune { t, secs: 3600 });
    TScenario { lat: 35.0, lon: -80.0, max_range: 500.0, events, log_level: 0, epoch_s: 0 }
}

/// One contact heard 100 000+ times (a fixed transponder, an aircraft in a holding pattern),
/// interleaved with a little other traffic.
fn generate_long_count(rng: &mut Rng) -> TScenario {
    let a = [0x48, 0x40, 0xd6];
    let b = [0xa0, 0x00, 0x01];
    let df18 = rng.coin();
    let mk = |me: [u8; 7]| if df18 { wire::df18(2, a, me) } else { wire::df17(5, a, me) };
    let hexes = vec![
        wire::hex(&mk(wire::me_velocity(1, 0, wire::sub_ground_speed(0, 300, 1, 120), 0, 0, 9, 0, 3))),
        wire::hex(&mk(wire::me_identification(4, 0, "HOLD1"))),
        wire::hex(&wire::df17(5, a, wire::me_raw(29, 0x1234))),
    ];
    let count = *rng.pick(&[65_600u32, 100_050, 131_200]);
    let mut events = vec![TEv::Frame { t: 0, hex: wire::hex(&wire::df17(5, b, wire::me_identification(4, 0, "OTHER"))), note: String::new() }];
    events.push(TEv::Burst { t: 1_000, dt: 10_000_000, hexes, count });
    let end = 1_000 + count as u64 * 10_000_000;
    events.push(TEv::Frame { t: end, hex: wire::hex(&wire::df17(5, b, wire::me_identification(4, 0, "OTHER"))), note: String::new() });
    events.push(TEv::Prune { t: end, secs: 1 << 40 });
    TScenario { lat: 35.0, lon: -80.0, max_range: 500.0, events, log_level: 0, epoch_s: 0 }
}

/// A survivor with a very long track (more than 8192 accepted positions) across expiry calls that
/// remove another aircraft.
fn generate_long_track_with_expiry(rng: &mut Rng) -> TScenario {
    let a = [0x40, 0x62, 0x1d];
    let b = [0xa0, 0x00, 0x02];
    let (lat, lon) = (52.0, 4.0);
    let mut hexes = vec![];
    for odd in [false, true] {
        let (yz, xz) = wire::cpr_encode(lat + 0.2, lon + 0.1, odd);
        hexes.push(wire::hex(&wire::df17(5, a, wire::me_airborne_position(11, 0, 0, wire::ac12_q(30_000), false, odd, yz, xz))));
    }
    let count = *rng.pick(&[4_200u32, 8_300, 8_300, 16_500]);
    let dt = 500_000_000u64;
    let mut events = vec![TEv::Frame { t: 0, hex: wire::hex(&wire::df17(5, b, wire::me_identification(4, 0, "GONE"))), note: String::new() }];
    events.push(TEv::Burst { t: 1_000, dt, hexes: hexes.clone(), count });
    let end = 1_000 + count as u64 * dt;
    events.push(TEv::Prune { t: end, secs: 60 });
    events.push(TEv::Burst { t: end + dt, dt, hexes, count: 4 });
    events.push(TEv::Prune { t: end + 5 * dt, secs: 60 });
    TScenario { lat, lon, max_range: 500.0, events, log_level: 0, epoch_s: 0 }
}

#[allow(clippy::too_many_lines)]
pub fn generate(rng: &mut Rng, fault_free: bool, focus: &str) -> TScenario {
    if !fault_free {
        let r = rng.f64();
        match focus {
            "C12" if r < 0.0006 => return generate_mega_crowd(rng),
            "C12" if r < 0.0012 => return generate_long_count(rng),
            "C15" if r < 0.0006 => return generate_long_track_with_expiry(rng),
            "C15" if r < 0.0010 => return generate_mega_crowd(rng),
            "C14" if r < 0.0004 => return generate_long_track_with_expiry(rng),
            _ => {}
        }
    }
    if focus == "C14" && !fault_free && rng.chance(0.003) {
        return generate_long_haul(rng);
    }
    if focus == "C13" && !fault_free && rng.chance(0.004) {
        return generate_long_inbound(rng);
    }
    if (focus == "C12" || focus == "C15") && !fault_free && rng.chance(0.002) {
        return generate_crowded(rng);
    }
    // ---- swarm configuration of this run
    let rate = |rng: &mut Rng, on: bool| if on && !fault_free { *rng.pick(&[0.01, 0.03, 0.1, 0.25]) } else { 0.0 };
    let cfg = Cfg {
        loss: { let on = rng.coin(); rate(rng, on) },
        dup: { let on = rng.coin(); rate(rng, on) },
        jitter: { let on = rng.coin(); rate(rng, on) },
        corrupt: { let on = rng.coin(); rate(rng, on) * 0.5 },
        garbage: { let on = rng.coin(); rate(rng, on) * 0.5 },
        teleport: !fault_free && rng.coin(),
        collide: !fault_free && rng.coin(),
        clock_fwd: !fault_free && rng.coin(),
        clock_back: !fault_free && rng.chance(0.3),
        zero_adv: !fault_free && rng.coin(),
        boundary: !fault_free && rng.chance(if focus == "C15" { 0.8 } else { 0.3 }),
    };
    let lat = *rng.pick(&[0.0, 35.0, -35.0, 60.0, -60.0, 85.0, -85.0, 89.9, -89.9, 35.0, 52.0]);
    let lon = *rng.pick(&[0.0, 80.0, -80.0, 179.95, -179.95, -80.0, 4.0]);
    let max_range = *rng.pick(&[0.0, 5.0, 50.0, 500.0, 500.0, 500.0, 2000.0, 1e9, 1e308, 25_000.0, 40_030.0]);
    let filter_t: u64 = *rng.pick(&[0u64, 1, 1, 2, 2, 5, 5, 60, 120, 1 << 40, i64::MAX as u64, 1 << 63, u64::MAX]);
    let prune_mode = if focus == "C15" { rng.below(2) } else { rng.below(3) }; // 0 every delivery, 1 sporadic, 2 never
    // thorough tier: a third of the runs use the deeper bounds, the rest stay short and diverse
    let deep = simcore::deep() && rng.chance(0.33);
    let ntx = 1 + rng.usize_below(if fault_free { 4 } else if deep { 10 } else { 6 });
    let target_frames = 16 + rng.usize_below(if deep { 700 } else if focus == "C13" || focus == "C14" { 180 } else { 120 });

    // address pool (small, so re-use and near-collisions happen)
    let mut pool: Vec<[u8; 3]> = vec![[0xa0, 0x00, 0x01], [0xa0, 0x00, 0x02], [0x48, 0x40, 0xd6]];
    if rng.coin() {
        pool.push([0, 0, 0]);
    }
    if rng.coin() {
        pool.push([0xff, 0xff, 0xff]);
    }
    while pool.len() < 4 + rng.usize_below(5) {
        pool.push([rng.next_u64() as u8, rng.next_u64() as u8, rng.next_u64() as u8]);
    }
    if !fault_free && rng.chance(0.35) {
        // related addresses: equal except for the top bits / one byte / one bit / byte order — what
        // collides in anything that folds, truncates or hashes an address
        for _ in 0..1 + rng.below(3) {
            let a = pool[rng.usize_below(pool.len())];
            let b = match rng.below(6) {
                0 => [a[0] ^ ((1 + rng.below(15) as u8) << 4), a[1], a[2]],
                1 => [a[0] ^ (1 + rng.below(255) as u8), a[1], a[2]],
                2 => [a[0], a[1], a[2] ^ (1 << rng.below(8))],
                3 => [a[2], a[1], a[0]],
                4 => [a[0], a[1] ^ 0x80, a[2]],
                _ => [a[0].wrapping_add(1), a[1], a[2]],
            };
            pool.push(b);
        }
    }

    let per_tx_rate = 4.6; // frames per second of one transmitter, roughly
    let duration = (target_frames as f64 / (per_tx_rate * ntx as f64)).clamp(1.5, if deep { 120.0 } else { 40.0 });
    let r_eff = if (1.0..=2000.0).contains(&max_range) { max_range } else { *rng.pick(&[50.0, 300.0, 5000.0]) };

    let mut txs: Vec<Tx> = vec![];
    for i in 0..ntx {
        let addr = if cfg.collide && i > 0 && rng.chance(0.3) { txs[rng.usize_below(i)].addr } else { pool[rng.usize_below(pool.len())] };
        let class = rng.below(if fault_free { 3 } else { 7 });
        let dist = match class {
            0 => r_eff * rng.f64_range(0.02, 0.5),
            1 => r_eff * rng.f64_range(0.5, 0.9),
            2 => (r_eff - 1.5).max(0.1),
            3 => (r_eff - 0.012).max(0.05),
            4 => r_eff + 0.012,
            5 => r_eff + 1.5,
            _ => (r_eff * rng.f64_range(1.5, 3.0)).min(19_000.0),
        };
        let bearing = rng.f64_range(0.0, 360.0);
        let start = wire::destination((lat, lon), bearing, dist);
        let heading = match rng.below(4) {
            0 => bearing,                   // outbound
            1 => (bearing + 180.0) % 360.0, // inbound
            _ => rng.f64_range(0.0, 360.0),
        };
        let speed_kt = *rng.pick(&[0.0, 120.0, 250.0, 450.0, 600.0]);
        let silent = rng.chance(0.35);
        let (af, at) = if silent {
            let a = rng.f64_range(0.0, duration * 0.5);
            (a, a + rng.f64_range(0.3, duration * 0.5))
        } else {
            (0.0, duration)
        };
        let mut teleports = vec![];
        if cfg.teleport && rng.chance(0.5) {
            let n = 1 + rng.below(2);
            for _ in 0..n {
                teleports.push((rng.f64_range(af, at), rng.f64_range(0.0, 360.0), *rng.pick(&[99.9, 100.1, 99.99, 100.01, 150.0, 1000.0, 60.0])));
            }
        }
        txs.push(Tx {
            addr,
            df18_cf: if rng.chance(0.3) { Some(rng.below(8) as u8) } else { None },
            ca: rng.below(8) as u8,
            start,
            heading,
            speed_kms: speed_kt * 1.852 / 3600.0,
            alt_ft: (rng.below(2000) as i32) * 25 - 500,
            alt_mode: [0u8, 0, 0, 0, 0, 0, 1, 2][rng.usize_below(8)],
            parity_random: rng.chance(0.3),
            next_odd: rng.coin(),
            callsign: (*rng.pick(&CALLSIGNS)).to_string(),
            active_from: af,
            active_to: at,
            teleports,
        });
    }

    // ---- emissions
    struct Em {
        t: f64,
        bytes: Vec<u8>,
        note: Vec<&'static str>,
    }
    let mut ems: Vec<Em> = vec![];
    for tx in txs.iter_mut() {
        let tele = !tx.teleports.is_empty();
        let collide = false;
        let mut timers = [
            tx.active_from + rng.f64_range(0.0, 0.5), // position
            tx.active_from + rng.f64_range(0.0, 0.5), // velocity
            tx.active_from + rng.f64_range(0.0, 2.0), // ident
            tx.active_from + rng.f64_range(0.0, 3.0), // other ES
            tx.active_from + rng.f64_range(0.0, 2.0), // non-ES replies
        ];
        loop {
            let (k, &t) = timers.iter().enumerate().min_by(|a, b| a.1.partial_cmp(b.1).unwrap()).unwrap();
            if t > tx.active_to {
                break;
            }
            let bytes = match k {
                0 => gen_position(rng, tx, t),
                1 => gen_velocity(rng, tx),
                2 => gen_ident(rng, tx),
                3 => gen_other_es(rng, tx),
                _ => gen_non_es(rng, tx.addr),
            };
            let mut note = vec![];
            if tele && k == 0 && tx.teleports.iter().any(|(tt, _, _)| t >= *tt) {
                note.push("teleport");
            }
            if collide {
                note.push("collide");
            }
            ems.push(Em { t, bytes, note });
            timers[k] += match k {
                0 | 1 => rng.f64_range(0.4, 0.6),
                2 => rng.f64_range(1.0, 5.0),
                3 => rng.f64_range(1.0, 6.0),
                _ => rng.f64_range(0.5, 4.0),
            };
        }
    }
    if cfg.collide {
        // mark frames of shared addresses
        let mut seen: Vec<[u8; 3]> = vec![];
        let mut shared: Vec<[u8; 3]> = vec![];
        for tx in &txs {
            if seen.contains(&tx.addr) {
                shared.push(tx.addr);
            }
            seen.push(tx.addr);
        }
        for e in ems.iter_mut() {
            if e.bytes.len() == 14 && shared.iter().any(|a| e.bytes[1..4] == a[..]) {
                e.note.push("collide");
            }
        }
    }
    // garbage frames: random CPR / payload from pool addresses
    if cfg.garbage > 0.0 {
        let n = ((ems.len() as f64) * cfg.garbage).ceil() as usize;
        for _ in 0..n {
            let addr = pool[rng.usize_below(pool.len())];
            let me = if rng.chance(0.7) {
                wire::me_airborne_position(9 + rng.below(10) as u8, 0, 0, wire::ac12_q(10_000), false, rng.coin(), rng.below(131_072) as u32, rng.below(131_072) as u32)
            } else {
                wire::me_raw(rng.below(32) as u8, rng.next_u64())
            };
            ems.push(Em { t: rng.f64_range(0.0, duration), bytes: wire::df17(5, addr, me), note: vec!["garbage"] });
        }
    }

    // ---- channel
    struct Del {
        t: u64,
        seq: usize,
        bytes: Vec<u8>,
        note: Vec<&'static str>,
    }
    let mut dels: Vec<Del> = vec![];
    let mut lost_before = false;
    ems.sort_by(|a, b| a.t.partial_cmp(&b.t).unwrap());
    for e in ems {
        if cfg.loss > 0.0 && rng.chance(cfg.loss) {
            lost_before = true;
            continue;
        }
        let mut note = e.note.clone();
        if lost_before {
            note.push("lossy");
            lost_before = false;
        }
        let mut t = (e.t * 1e9) as u64;
        if cfg.jitter > 0.0 && rng.chance(cfg.jitter) {
            t += *rng.pick(&[1_000_000u64, 100_000_000, 700_000_000, 3 * NS]);
            note.push("delayed");
        }
        let mut bytes = e.bytes.clone();
        if cfg.corrupt > 0.0 && rng.chance(cfg.corrupt) {
            for _ in 0..1 + rng.below(3) {
                let bit = rng.usize_below(bytes.len() * 8);
                bytes[bit / 8] ^= 0x80 >> (bit % 8);
            }
            note.push("corrupt");
        }
        let seq = dels.len();
        dels.push(Del { t, seq, bytes: bytes.clone(), note: note.clone() });
        if cfg.dup > 0.0 && rng.chance(cfg.dup) {
            let d = *rng.pick(&[0u64, 1_000_000, NS, 5 * NS]);
            let mut n2 = note.clone();
            n2.push("dup");
            let seq = dels.len();
            dels.push(Del { t: t + d, seq, bytes, note: n2 });
        }
    }
    dels.sort_by_key(|d| (d.t, d.seq));
    dels.truncate(if deep { 1000 } else { 400 });

    // ---- expiry calls
    let mut events: Vec<TEv> = vec![];
    for d in &dels {
        events.push(TEv::Frame { t: d.t, hex: wire::hex(&d.bytes), note: d.note.join(",") });
        let secs = if rng.chance(0.15) { *rng.pick(&[0u64, 1, 2, 5, 60, u64::MAX, u64::MAX - 1]) } else { filter_t };
        match prune_mode {
            0 => events.push(TEv::Prune { t: d.t, secs }),
            1 => {
                if rng.chance(0.12) {
                    events.push(TEv::Prune { t: d.t + rng.below(NS), secs });
                }
            }
            _ => {}
        }
    }
    if prune_mode != 2 {
        // one expiry call before anything arrives (empty tracker) now and then
        if rng.chance(0.2) {
            events.insert(0, TEv::Prune { t: 0, secs: filter_t });
        }
        // a final expiry after a wait relative to the threshold
        let last = events.last().map(TEv::t).unwrap_or(0);
        let waits = [0u64, 1, NS / 2, NS, filter_t.saturating_mul(NS).saturating_sub(1), filter_t.saturating_mul(NS), filter_t.saturating_mul(NS).saturating_add(1)];
        let w = *rng.pick(&waits);
        if let Some(t) = last.checked_add(w) {
            if t < u64::MAX / 4 {
                events.push(TEv::Prune { t, secs: filter_t });
            }
        }
    }
    // stable order by time (a sporadic prune may have been pushed past later frames)
    let mut keyed: Vec<(u64, usize, TEv)> = events.into_iter().enumerate().map(|(i, e)| (e.t(), i, e)).collect();
    keyed.sort_by_key(|k| (k.0, k.1));
    let mut events: Vec<TEv> = keyed.into_iter().map(|k| k.2).collect();

    // ---- clock faults (post-processing of the delivery times)
    if cfg.zero_adv && events.len() > 4 {
        for _ in 0..1 + rng.below(3) {
            let i = rng.usize_below(events.len() - 1);
            let n = 2 + rng.usize_below(4);
            let t0 = events[i].t();
            for e in events.iter_mut().skip(i).take(n) {
                *e.t_mut() = t0;
            }
        }
    }
    let tn = filter_t.saturating_mul(NS);
    if cfg.boundary && filter_t <= 1_000_000 && prune_mode != 2 {
        // an expiry call placed exactly at last-heard + T (-1 ns, 0, +1 ns) after some frame
        for _ in 0..1 + rng.below(2) {
            let frames: Vec<usize> = events.iter().enumerate().filter(|(_, e)| matches!(e, TEv::Frame { .. })).map(|(i, _)| i).collect();
            if frames.is_empty() {
                break;
            }
            let i = *rng.pick(&frames);
            let delta: i64 = *rng.pick(&[-1i64, 0, 0, 1]);
            let shift = (tn as i64 + delta).max(0) as u64;
            let t_pr = events[i].t() + shift;
            for e in events.iter_mut().skip(i + 1) {
                *e.t_mut() += shift;
            }
            events.insert(i + 1, TEv::Prune { t: t_pr, secs: filter_t });
        }
    }
    if cfg.clock_fwd && !events.is_empty() {
        for _ in 0..1 + rng.below(2) {
            let i = rng.usize_below(events.len());
            let waits = [1u64, NS / 2, NS, tn.saturating_sub(1), tn, tn.saturating_add(1), tn.saturating_mul(10), 10 * NS];
            let j = (*rng.pick(&waits)).min(1_000_000 * NS);
            for e in events.iter_mut().skip(i) {
                *e.t_mut() += j;
            }
        }
    }
    if cfg.clock_back && events.len() > 2 {
        let i = 1 + rng.usize_below(events.len() - 1);
        let b = *rng.pick(&[1u64, NS, 100 * NS]);
        for e in events.iter_mut().skip(i) {
            let t = e.t_mut();
            *t = t.saturating_sub(b);
        }
    }
    TScenario { lat, lon, max_range, events, log_level: 0, epoch_s: 0 }
}

impl TrackerEngine {
    fn expected_probes_std(&self) -> Vec<&'static str> {
        match self.prop {
            "C12" => vec!["second_frame_of_address", "df18_for_known_address", "non_es_frame", "re_add_after_expiry", "isolation_replay_with_interleaved_traffic", "more_than_100_distinct_addresses", "more_than_4096_tracked_at_once", "contact_with_100000_messages"],
            "C13" => vec!["range_reject", "jump_reject", "pair_accepted", "accept_with_previous_position", "clear_of_published_position", "acquisition", "publication_at_high_latitude", "publication_across_antimeridian", "same_parity_replaces_stored_report", "threshold_band_or_dont_care"],
            "C14" => vec!["callsign_changed", "velocity_without_information_after_valid", "details_available", "position_without_details_altitude_missing", "track_with_three_positions", "current_position_republished", "track_longer_than_2048"],
            "C14x" => vec![],
            _ => vec!["elapsed_equals_threshold_exactly", "elapsed_one_ns_below_threshold", "prune_on_empty_tracker", "all_expire_at_once", "heard_again_after_expiry", "non_es_frame_must_not_refresh", "prune_with_clock_before_last_heard"],
        }
    }
}

impl Engine for TrackerEngine {
    type Sc = TScenario;

    #[cfg(not(feature = "alloc_only"))]
    fn engine_name(&self) -> &'static str {
        match self.prop {
            "C12" => "T12",
            "C13" => "T13",
            "C14" => "T14",
            _ => "T15",
        }
    }
    /// the same engine against the alloc-only (no_std) build of tracker and decoder
    #[cfg(feature = "alloc_only")]
    fn engine_name(&self) -> &'static str {
        match self.prop {
            "C12" => "T12a",
            "C13" => "T13a",
            _ => "T14a",
        }
    }
    fn property(&self) -> &'static str {
        self.prop
    }
    fn stream(&self) -> u64 {
        self.prop[1..].parse().unwrap_or(0)
    }
    fn generate(&self, rng: &mut Rng, fault_free: bool) -> TScenario {
        let mut sc = generate(rng, fault_free, self.prop);
        if !fault_free {
            sc.log_level = *rng.pick(&[0u8, 0, 0, 1, 3, 4, 4, 5, 5]);
            if rng.chance(0.06) {
                // a few seconds before the clock's count of milliseconds / seconds passes a power
                // of two (u32 ms wrap every 49.7 days; i32 s in 2038; u32 s in 2106; 2^41 ms in 2039)
                let lead = 1 + rng.below(20);
                let ms32 = 4_294_967_296u64; // 2^32 ms, in ms
                let k = 396 + rng.below(60); // wraps between 2023 and 2031
                sc.epoch_s = match rng.below(6) {
                    0 | 1 | 2 => (k * ms32) / 1000 - lead,
                    3 => (1u64 << 31) - lead,
                    4 => (1u64 << 32) - lead,
                    _ => (1u64 << 41) / 1000 - lead,
                };
            }
        }
        sc
    }
    fn execute(&self, sc: &TScenario) -> Outcome {
        exec::execute(sc, exec::Mask::only(self.prop))
    }
    fn shrink(&self, sc: &TScenario) -> Vec<TScenario> {
        let mut c: Vec<TScenario> = if sc.events.len() > 1200 {
            // big scenarios: coarse chunks only (a finer pass follows once it has shrunk)
            let n = sc.events.len();
            let mut v = vec![];
            let mut size = n / 2;
            while size >= n / 32 && size >= 1 {
                let mut start = 0;
                while start < n {
                    let end = (start + size).min(n);
                    let mut ev = sc.events[..start].to_vec();
                    ev.extend_from_slice(&sc.events[end..]);
                    v.push(TScenario { events: ev, ..sc.clone() });
                    start += size;
                }
                size /= 2;
            }
            v
        } else {
            drop_chunks(&sc.events).into_iter().map(|events| TScenario { events, ..sc.clone() }).collect()
        };
        for (i, e) in sc.events.iter().enumerate() {
            if let TEv::Burst { count, .. } = e {
                for nc in [count / 2, count - count / 8, count.saturating_sub(1)] {
                    if nc >= 1 && nc < *count {
                        let mut s2 = sc.clone();
                        if let TEv::Burst { count: c2, .. } = &mut s2.events[i] {
                            *c2 = nc;
                        }
                        c.push(s2);
                    }
                }
            }
        }
        if sc.log_level != 0 {
            c.push(TScenario { log_level: 0, ..sc.clone() });
        }
        if sc.epoch_s != 0 {
            c.push(TScenario { epoch_s: 0, ..sc.clone() });
        }
        // simpler receiver / range
        if sc.lat != 0.0 || sc.lon != 0.0 {
            c.push(TScenario { lat: 0.0, lon: 0.0, ..sc.clone() });
        }
        if sc.max_range != 500.0 {
            c.push(TScenario { max_range: 500.0, ..sc.clone() });
        }
        // clear provenance notes (they only feed the fault counters)
        if sc.events.iter().any(|e| matches!(e, TEv::Frame { note, .. } if !note.is_empty())) {
            let mut s = sc.clone();
            for e in s.events.iter_mut() {
                if let TEv::Frame { note, .. } = e {
                    note.clear();
                }
            }
            c.push(s);
        }
        c
    }
    fn describe(&self, sc: &TScenario) -> Value {
        json!({
            "receiver": [sc.lat, sc.lon],
            "max_range_km": sc.max_range,
            "events_total": sc.events.len(),
            "first_events": sc.events.iter().take(14).map(|e| match e {
                TEv::Frame { t, hex, note } => format!("t={:.6}s frame {hex}{}", *t as f64 / 1e9, if note.is_empty() { String::new() } else { format!(" [{note}]") }),
                TEv::Prune { t, secs } => format!("t={:.6}s prune({secs})", *t as f64 / 1e9),
                TEv::Burst { t, dt, hexes, count } => format!("t={:.6}s burst of {count} deliveries every {:.3}s cycling {:?}", *t as f64 / 1e9, *dt as f64 / 1e9, hexes),
            }).collect::<Vec<_>>()
        })
    }
    fn expected_probes(&self) -> Vec<&'static str> {
        let v = self.expected_probes_std();
        // no clock and no expiry in the alloc-only build
        #[cfg(feature = "alloc_only")]
        let v: Vec<&'static str> = v.into_iter().filter(|p| !p.contains("expir")).collect();
        v
    }
    fn components(&self) -> Value {
        json!({
            "real": ["adsb_deku::Frame::from_bytes", "rsadsb_common::Airplanes (action, prune, get/keys/iter/len, aircraft_details, all_position, Display)", "adsb_deku::cpr::get_position"],
            "simulated": ["transmitters (1..6, trajectories, message timers)", "radio channel (loss, duplication, delay/reordering, bit corruption, garbage frames, address collisions, teleports)", "wall clock (hook H1: forward jumps, backward steps, zero advance, waits exactly at the expiry threshold)"],
            "stub": []
        })
    }
    fn rule(&self) -> String {
        "seed -> swarm configuration (which channel/clock fault kinds are on and their rates, receiver position class incl. high latitude and antimeridian, range limit 0..1e9 km, expiry threshold 0..2^40 s, expiry schedule) -> discrete-event simulation of 1..6 transmitters drawn from a 4..8 address pool (DF17 and DF18 with every CF, positions encoded with an independent CPR encoder, velocity/identification/other type codes, non-ES replies DF0/4/5/11/16/20/21/24+) -> explicit list of deliveries and expiry calls at virtual times. Every 10th run has all fault kinds off. A run is non-trivial when at least one fault fired and at least one probe was reached; distinct = distinct fingerprint of (frames, times, return values, tracked-set sizes).".to_string()
    }
    fn assumptions(&self) -> Vec<String> {
        let mut v = vec![
            "the reference models consume the frame as decoded by adsb_deku (decoder correctness is C01-C11, not claimed here)".to_string(),
            "quick tier: <= 6 transmitters, <= 8 addresses, <= 400 deliveries per run; thorough tier: <= 10 transmitters, <= 1000 deliveries".to_string(),
        ];
        match self.prop {
            "C13" => {
                v.push("cpr::get_position is used as a trusted pairing function (C05's subject); either argument order is accepted as 'the pairing'".into());
                v.push("distance tolerance 1e-5*d + 1e-4 km; inside that band of the range limit or of 100 km either decision is accepted; candidates with |lat| > 90 or > 20000 km away are don't-care".into());
            }
            "C14" => v.push("a position dropped by a clear is an optional track element; the current position may appear at the end of the track only after an observed re-publication".into()),
            "C15" => v.push("when the clock stepped backwards past an aircraft's last-heard time either expiry outcome is accepted for that aircraft".into()),
            _ => {}
        }
        v
    }
    fn state_measure(&self) -> &'static str {
        "distinct (tracked count, addresses ever seen, addresses ever expired, positioned count) at end of run"
    }
}
