//! adsb-sim: deterministic simulation with fault injection for rsadsb/adsb_deku.
//!
//!   adsb-sim check <Cxx> [--tier quick|thorough]
//!   adsb-sim replay <file>
//!   adsb-sim selftest

mod client;
mod reader;
mod tracker;
mod vclock;

use std::path::PathBuf;

use simcore::{harness_error, load_replay, replay_with, run_batch, BatchCfg};

fn usage() -> ! {
    eprintln!("usage: adsb-sim check <C12..C19> [--tier quick|thorough] | replay <file> | selftest");
    std::process::exit(2)
}

fn main() {
    simcore::install_panic_capture();
    let args: Vec<String> = std::env::args().skip(1).collect();
    if args.is_empty() {
        usage();
    }
    match args[0].as_str() {
        "check" => {
            let prop = args.get(1).cloned().unwrap_or_else(|| usage());
            let mut tier = std::env::var("VERIF_TIER").unwrap_or_else(|_| "quick".into());
            let mut i = 2;
            while i < args.len() {
                if args[i] == "--tier" {
                    tier = args.get(i + 1).cloned().unwrap_or_else(|| usage());
                    i += 1;
                }
                i += 1;
            }
            if tier != "quick" && tier != "thorough" {
                usage();
            }
            simcore::set_deep(tier == "thorough");
            std::process::exit(check(&prop, &tier));
        }
        "replay" => {
            let path = PathBuf::from(args.get(1).cloned().unwrap_or_else(|| usage()));
            let rf = load_replay(&path);
            let code = match rf.engine.as_str() {
                "R" => replay_with(&reader::ReaderEngine, &rf, &path),
                "Rc" => reader::replay_concurrent(&rf, &path),
                "Rx2" => reader::replay_twice(&rf, &path),
                "Rv" => reader::replay_volume(&rf, &path),
                "K16" => {
                    let c = replay_with(&client::ClientEngine { prop: "C16" }, &rf, &path);
                    client::pty::cleanup_workdirs();
                    c
                }
                "K17" => {
                    let c = replay_with(&client::ClientEngine { prop: "C17" }, &rf, &path);
                    client::pty::cleanup_workdirs();
                    c
                }
                "K18" => {
                    let c = replay_with(&client::ClientEngine { prop: "C18" }, &rf, &path);
                    client::pty::cleanup_workdirs();
                    c
                }
                "T12a" | "T13a" | "T14a" | "Ra" => {
                    let st = std::process::Command::new(client::exe("adsb-sim-alloc")).arg("replay").arg(&path).status().unwrap_or_else(|e| harness_error(&format!("cannot run adsb-sim-alloc: {e}")));
                    st.code().unwrap_or(2)
                }
                "T12" => replay_with(&tracker::TrackerEngine { prop: "C12" }, &rf, &path),
                "T13" => replay_with(&tracker::TrackerEngine { prop: "C13" }, &rf, &path),
                "T14" => replay_with(&tracker::TrackerEngine { prop: "C14" }, &rf, &path),
                "T15" => replay_with(&tracker::TrackerEngine { prop: "C15" }, &rf, &path),
                other => harness_error(&format!("unknown engine {other} in replay file")),
            };
            std::process::exit(code);
        }
        "kdemo" => client::demo(),
        "selftest" => std::process::exit(selftest(&args[1..])),
        _ => usage(),
    }
}

fn check(prop: &str, tier: &str) -> i32 {
    match prop {
        "C19" => {
            let mut cfg = BatchCfg::from_env(tier, 1_500_000, 40_000_000, 120.0, 1500.0);
            // first: do results depend on what other threads decode at the same moment? (if they
            // do, a batch of many workers in one process cannot be deterministic either)
            let conc = reader::concurrent_purity(cfg.seed, tier, cfg.threads);
            cfg.extra_coverage.push(("concurrent_purity".into(), conc.coverage));
            if let Some(v) = conc.violation {
                cfg.pre_found.push(v);
                cfg.tolerate_det_mismatch = true;
            }
            // and: do results change once gigabytes have gone through the decoder of one process?
            let (vol, vol_cov) = reader::volume_purity(tier);
            cfg.extra_coverage.push(("volume_purity".into(), vol_cov));
            if let Some(v) = vol {
                cfg.pre_found.push(v);
            }
            let rc = run_batch(&reader::ReaderEngine, &cfg).exit_code;
            if rc == 2 {
                return rc;
            }
            // second configuration: the same engine against the alloc-only (no_std) decoder
            rc.max(alloc_only_batch("C19", tier))
        }
        "C12" | "C13" | "C14" | "C15" => {
            let p: &'static str = match prop {
                "C12" => "C12",
                "C13" => "C13",
                "C14" => "C14",
                _ => "C15",
            };
            let cfg = BatchCfg::from_env(tier, 60_000, 4_000_000, 120.0, 1500.0);
            let rc = run_batch(&tracker::TrackerEngine { prop: p }, &cfg).exit_code;
            if p == "C15" || rc == 2 {
                return rc;
            }
            // second configuration: the same engine against the alloc-only (no_std) build
            rc.max(alloc_only_batch(p, tier))
        }
        "C16" => {
            let mut cfg = BatchCfg::from_env(tier, 1_500, 250_000, 240.0, 1800.0);
            cfg.shrink_budget = 400;
            let r = run_batch(&client::ClientEngine { prop: "C16" }, &cfg).exit_code;
            client::pty::cleanup_workdirs();
            r
        }
        "C17" => {
            let mut cfg = BatchCfg::from_env(tier, 1_500, 250_000, 240.0, 1800.0);
            cfg.shrink_budget = 400;
            let r = run_batch(&client::ClientEngine { prop: "C17" }, &cfg).exit_code;
            client::pty::cleanup_workdirs();
            r
        }
        "C18" => {
            let mut cfg = BatchCfg::from_env(tier, 1_200, 200_000, 240.0, 1800.0);
            cfg.shrink_budget = 300;
            let r = run_batch(&client::ClientEngine { prop: "C18" }, &cfg).exit_code;
            client::pty::cleanup_workdirs();
            r
        }
        _ => harness_error(&format!("no check for property {prop}")),
    }
}

/// Determinism proof: for every engine run the same seeds in separate processes at worker counts
/// 1, 4 and 16 (and twice at 16) and diff the per-run trace fingerprints. Any mismatch = exit 2.
fn selftest(args: &[String]) -> i32 {
    let exe = std::env::current_exe().unwrap();
    let dir = simcore::verif_dir().join("work").join("selftest");
    let _ = std::fs::create_dir_all(&dir);
    let props: Vec<String> = if args.is_empty() { ["C19", "C12", "C13", "C14", "C15", "C16", "C17", "C18"].iter().map(|s| s.to_string()).collect() } else { args.to_vec() };
    let seeds: [u64; 3] = [simcore::DEFAULT_SEED, 1, 987_654_321];
    let mut total = 0u64;
    for p in &props {
        let runs: u64 = match p.as_str() {
            "C19" => 20_000,
            "C12" | "C13" | "C14" | "C15" => 3_000,
            _ => 240,
        };
        for seed in seeds {
            let mut files = vec![];
            for (i, threads) in [1usize, 4, 16, 16].iter().enumerate() {
                let f = dir.join(format!("{p}-{seed}-{i}.hashes"));
                let st = std::process::Command::new(&exe)
                    .args(["check", p])
                    .env("VERIF_SEED", seed.to_string())
                    .env("VERIF_RUNS", runs.to_string())
                    .env("VERIF_THREADS", threads.to_string())
                    .env("VERIF_HASH_DUMP", &f)
                    .env("VERIF_OUT_DIR", dir.join("scratch"))
                    .stdout(std::process::Stdio::null())
                    .status()
                    .unwrap_or_else(|e| harness_error(&format!("spawn: {e}")));
                if st.code() == Some(2) {
                    harness_error(&format!("selftest: check {p} seed {seed} threads {threads} reported a harness error"));
                }
                files.push(f);
            }
            let base = std::fs::read_to_string(&files[0]).unwrap_or_default();
            if base.lines().count() as u64 != runs {
                harness_error(&format!("selftest: {p} seed {seed}: expected {runs} runs, got {}", base.lines().count()));
            }
            for f in &files[1..] {
                let other = std::fs::read_to_string(f).unwrap_or_default();
                if other != base {
                    let diff = base.lines().zip(other.lines()).find(|(a, b)| a != b);
                    harness_error(&format!("selftest: {p} seed {seed}: trace fingerprints differ between {} and {}: {:?}", files[0].display(), f.display(), diff));
                }
            }
            total += runs;
            println!("selftest: {p} seed {seed}: {runs} runs identical at 1, 4, 16 and 16 workers in separate processes");
        }
    }
    let _ = std::fs::remove_dir_all(&dir);
    println!("selftest ok: {total} seeds x 4 executions, no divergence");
    0
}

/// Run Engine T for `prop` against the alloc-only build (binary `adsb-sim-alloc`) and fold its
/// summary into the property's evidence file.
fn alloc_only_batch(prop: &str, tier: &str) -> i32 {
    let dir = simcore::verif_dir();
    let out_base = std::env::var("VERIF_OUT_DIR").map(PathBuf::from).unwrap_or_else(|_| dir.clone());
    let sub = out_base.join("work").join("alloc").join(prop);
    let _ = std::fs::create_dir_all(&sub);
    println!("--- same engine against the alloc-only (no_std) build of tracker and decoder");
    let st = std::process::Command::new(client::exe("adsb-sim-alloc"))
        .args(["check", prop, "--tier", tier])
        .env("VERIF_OUT_DIR", &sub)
        .status()
        .unwrap_or_else(|e| harness_error(&format!("cannot run adsb-sim-alloc: {e}")));
    let rc = st.code().unwrap_or(2);
    let evp = out_base.join("evidence").join(format!("{prop}.json"));
    let sub_ev = sub.join("evidence").join(format!("{prop}.json"));
    if let (Ok(a), Ok(b)) = (std::fs::read_to_string(&evp), std::fs::read_to_string(&sub_ev)) {
        if let (Ok(mut main), Ok(alloc)) = (serde_json::from_str::<serde_json::Value>(&a), serde_json::from_str::<serde_json::Value>(&b)) {
            let c = &alloc["coverage"];
            main["coverage"]["alloc_only_build"] = serde_json::json!({
                "what": "the same generator, executor and reference model run against rsadsb_common / adsb_deku built with --no-default-features --features alloc (no clock, no expiry: expiry calls in the scenarios are skipped)",
                "evaluations": c["evaluations"], "distinct_nontrivial": c["distinct_nontrivial"], "distinct_traces": c["distinct_traces"],
                "faults_fired": c["faults_fired"], "probes": c["probes"], "violations_reported": c["violations_reported"], "wall_s": alloc["wall_s"],
            });
            if rc == 1 {
                let v = main["violations"].as_i64().unwrap_or(0) + alloc["violations"].as_i64().unwrap_or(1);
                main["violations"] = serde_json::json!(v);
            }
            let _ = std::fs::write(&evp, serde_json::to_string_pretty(&main).unwrap());
        }
    }
    rc
}
