//! adsb-sim: deterministic simulation with fault injection for rsadsb/adsb_deku.
//!
//!   adsb-sim check <Cxx> [--tier quick|thorough]
//!   adsb-sim replay <file>
//!   adsb-sim selftest

mod client;
mod reader;
mod tracker;

use std::path::PathBuf;

use simcore::{harness_error, load_replay, replay_with, run_batch, BatchCfg};

fn usage() -> ! {
    eprintln!("usage: adsb-sim check <C12..C19> [--tier quick|thorough] | replay <file> | selftest");
    std::process::exit(2)
}

fn main() {
    simcore::install_panic_capture();
    let args: Vec<String> = std::env::args().skip(1).collect();
    if args.is_empty() {
        usage();
    }
    match args[0].as_str() {
        "check" => {
            let prop = args.get(1).cloned().unwrap_or_else(|| usage());
            let mut tier = std::env::var("VERIF_TIER").unwrap_or_else(|_| "quick".into());
            let mut i = 2;
            while i < args.len() {
                if args[i] == "--tier" {
                    tier = args.get(i + 1).cloned().unwrap_or_else(|| usage());
                    i += 1;
                }
                i += 1;
            }
            if tier != "quick" && tier != "thorough" {
                usage();
            }
            std::process::exit(check(&prop, &tier));
        }
        "replay" => {
            let path = PathBuf::from(args.get(1).cloned().unwrap_or_else(|| usage()));
            let rf = load_replay(&path);
            let code = match rf.engine.as_str() {
                "R" => replay_with(&reader::ReaderEngine, &rf, &path),
                "K16" => {
                    let c = replay_with(&client::ClientEngine { prop: "C16" }, &rf, &path);
                    client::pty::cleanup_workdirs();
                    c
                }
                "K17" => {
                    let c = replay_with(&client::ClientEngine { prop: "C17" }, &rf, &path);
                    client::pty::cleanup_workdirs();
                    c
                }
                "K18" => {
                    let c = replay_with(&client::ClientEngine { prop: "C18" }, &rf, &path);
                    client::pty::cleanup_workdirs();
                    c
                }
                "T12" => replay_with(&tracker::TrackerEngine { prop: "C12" }, &rf, &path),
                "T13" => replay_with(&tracker::TrackerEngine { prop: "C13" }, &rf, &path),
                "T14" => replay_with(&tracker::TrackerEngine { prop: "C14" }, &rf, &path),
                "T15" => replay_with(&tracker::TrackerEngine { prop: "C15" }, &rf, &path),
                other => harness_error(&format!("unknown engine {other} in replay file")),
            };
            std::process::exit(code);
        }
        "kdemo" => client::demo(),
        _ => usage(),
    }
}

fn check(prop: &str, tier: &str) -> i32 {
    match prop {
        "C19" => {
            let cfg = BatchCfg::from_env(tier, 400_000, 40_000_000, 120.0, 1500.0);
            run_batch(&reader::ReaderEngine, &cfg).exit_code
        }
        "C12" | "C13" | "C14" | "C15" => {
            let p: &'static str = match prop {
                "C12" => "C12",
                "C13" => "C13",
                "C14" => "C14",
                _ => "C15",
            };
            let cfg = BatchCfg::from_env(tier, 60_000, 4_000_000, 120.0, 1500.0);
            run_batch(&tracker::TrackerEngine { prop: p }, &cfg).exit_code
        }
        "C16" => {
            let mut cfg = BatchCfg::from_env(tier, 1_500, 250_000, 240.0, 1800.0);
            cfg.shrink_budget = 400;
            let r = run_batch(&client::ClientEngine { prop: "C16" }, &cfg).exit_code;
            client::pty::cleanup_workdirs();
            r
        }
        "C17" => {
            let mut cfg = BatchCfg::from_env(tier, 1_500, 250_000, 240.0, 1800.0);
            cfg.shrink_budget = 400;
            let r = run_batch(&client::ClientEngine { prop: "C17" }, &cfg).exit_code;
            client::pty::cleanup_workdirs();
            r
        }
        "C18" => {
            let mut cfg = BatchCfg::from_env(tier, 1_200, 200_000, 240.0, 1800.0);
            cfg.shrink_budget = 300;
            let r = run_batch(&client::ClientEngine { prop: "C18" }, &cfg).exit_code;
            client::pty::cleanup_workdirs();
            r
        }
        _ => harness_error(&format!("no check for property {prop}")),
    }
}
