//! Small VT emulator: reconstructs the screen from the bytes the real ratatui/crossterm output
//! path wrote to the pty, and snapshots the cell grid at every in-band frame marker
//! (`ESC ] 777 ; frame ; <k> ; <virtual us> BEL`, written by the poll seam right after each draw).

#[derive(Clone, Debug, PartialEq)]
pub struct Cell {
    pub ch: char,
    /// 0 = default; 1000+N = 256-colour N; 0x1000000|rgb = true colour; else the SGR code
    pub fg: u32,
    pub bold: bool,
}

impl Default for Cell {
    fn default() -> Self {
        Cell { ch: ' ', fg: 0, bold: false }
    }
}

#[derive(Clone, Debug)]
pub struct Frame {
    pub k: u64,
    pub vt_us: u64,
    pub rows: Vec<Vec<Cell>>,
}

impl Frame {
    pub fn text(&self) -> Vec<String> {
        self.rows.iter().map(|r| r.iter().map(|c| c.ch).collect::<String>().trim_end().to_string()).collect()
    }
    pub fn row_text(&self, y: usize) -> String {
        self.rows.get(y).map(|r| r.iter().map(|c| c.ch).collect()).unwrap_or_default()
    }
    /// first occurrence of `needle`: (col, row)
    pub fn find(&self, needle: &str) -> Option<(usize, usize)> {
        let n: Vec<char> = needle.chars().collect();
        for (y, r) in self.rows.iter().enumerate() {
            if r.len() < n.len() {
                continue;
            }
            for x in 0..=r.len() - n.len() {
                if r[x..x + n.len()].iter().map(|c| c.ch).eq(n.iter().copied()) {
                    return Some((x, y));
                }
            }
        }
        None
    }
}

#[derive(Clone, Debug, Default)]
pub struct Modes {
    pub cursor_visible: bool,
    pub mouse_modes_on: Vec<u32>,
    pub alt_screen: bool,
    pub unknown_sequences: u64,
}

pub struct Vt {
    grid: Vec<Vec<Cell>>,
    x: usize,
    y: usize,
    fg: u32,
    bold: bool,
    pub modes: Modes,
    pub frames: Vec<Frame>,
    /// frames with a smaller index are not snapshotted (long backlog runs would otherwise hold
    /// ten thousand screen copies)
    pub keep_from: u64,
    /// bytes of plain text written after the last frame marker (exit messages etc.)
    pub tail_text: String,
}

const MAXW: usize = 400;
const MAXH: usize = 200;

impl Vt {
    pub fn new() -> Self {
        Self { grid: vec![], x: 0, y: 0, fg: 0, bold: false, modes: Modes { cursor_visible: true, ..Default::default() }, frames: vec![], keep_from: 0, tail_text: String::new() }
    }

    fn put(&mut self, ch: char) {
        if self.y >= MAXH || self.x >= MAXW {
            self.x += 1;
            return;
        }
        while self.grid.len() <= self.y {
            self.grid.push(vec![]);
        }
        let row = &mut self.grid[self.y];
        while row.len() <= self.x {
            row.push(Cell::default());
        }
        row[self.x] = Cell { ch, fg: self.fg, bold: self.bold };
        self.x += 1;
    }

    fn clear_all(&mut self) {
        for r in self.grid.iter_mut() {
            for c in r.iter_mut() {
                *c = Cell::default();
            }
        }
    }

    fn sgr(&mut self, params: &[u32]) {
        let mut i = 0;
        if params.is_empty() {
            self.fg = 0;
            self.bold = false;
        }
        while i < params.len() {
            match params[i] {
                0 => {
                    self.fg = 0;
                    self.bold = false;
                }
                1 => self.bold = true,
                22 => self.bold = false,
                30..=37 | 90..=97 => self.fg = params[i],
                39 => self.fg = 0,
                38 => {
                    if params.get(i + 1) == Some(&5) {
                        self.fg = 1000 + params.get(i + 2).copied().unwrap_or(0);
                        i += 2;
                    } else if params.get(i + 1) == Some(&2) {
                        let r = params.get(i + 2).copied().unwrap_or(0) & 255;
                        let g = params.get(i + 3).copied().unwrap_or(0) & 255;
                        let b = params.get(i + 4).copied().unwrap_or(0) & 255;
                        self.fg = 0x100_0000 | (r << 16) | (g << 8) | b;
                        i += 4;
                    }
                }
                48 => {
                    if params.get(i + 1) == Some(&5) {
                        i += 2;
                    } else if params.get(i + 1) == Some(&2) {
                        i += 4;
                    }
                }
                _ => {}
            }
            i += 1;
        }
    }

    pub fn feed(&mut self, bytes: &[u8]) {
        let s = String::from_utf8_lossy(bytes);
        let cs: Vec<char> = s.chars().collect();
        let mut i = 0;
        while i < cs.len() {
            let c = cs[i];
            match c {
                '\x1b' => {
                    let Some(&n) = cs.get(i + 1) else { break };
                    match n {
                        '[' => {
                            // CSI
                            let mut j = i + 2;
                            let mut private = false;
                            let mut params: Vec<u32> = vec![];
                            let mut cur: Option<u32> = None;
                            while j < cs.len() {
                                let d = cs[j];
                                if d == '?' || d == '>' || d == '<' || d == '=' {
                                    private = true;
                                } else if d.is_ascii_digit() {
                                    cur = Some(cur.unwrap_or(0).saturating_mul(10).saturating_add(d as u32 - '0' as u32));
                                } else if d == ';' || d == ':' {
                                    params.push(cur.take().unwrap_or(0));
                                } else if (' '..='/').contains(&d) {
                                    // intermediate
                                } else {
                                    break;
                                }
                                j += 1;
                            }
                            if let Some(v) = cur {
                                params.push(v);
                            }
                            let fin = cs.get(j).copied().unwrap_or('?');
                            self.csi(private, &params, fin);
                            i = j + 1;
                            continue;
                        }
                        ']' => {
                            // OSC ... BEL | ESC \
                            let mut j = i + 2;
                            let mut body = String::new();
                            while j < cs.len() {
                                if cs[j] == '\x07' {
                                    j += 1;
                                    break;
                                }
                                if cs[j] == '\x1b' && cs.get(j + 1) == Some(&'\\') {
                                    j += 2;
                                    break;
                                }
                                body.push(cs[j]);
                                j += 1;
                            }
                            self.osc(&body);
                            i = j;
                            continue;
                        }
                        '7' | '8' | '=' | '>' | 'M' | 'c' => {
                            i += 2;
                            continue;
                        }
                        '(' | ')' => {
                            i += 3;
                            continue;
                        }
                        _ => {
                            self.modes.unknown_sequences += 1;
                            i += 2;
                            continue;
                        }
                    }
                }
                '\r' => {
                    self.x = 0;
                    self.tail_text.push(c);
                }
                '\n' => {
                    self.y += 1;
                    self.tail_text.push(c);
                }
                '\x08' => self.x = self.x.saturating_sub(1),
                '\x07' | '\0' => {}
                '\t' => self.x = (self.x / 8 + 1) * 8,
                _ => {
                    self.put(c);
                    self.tail_text.push(c);
                }
            }
            i += 1;
        }
    }

    fn csi(&mut self, private: bool, p: &[u32], fin: char) {
        let p0 = |d: u32| p.first().copied().filter(|&v| v != 0).unwrap_or(d);
        if private {
            if fin == 'h' || fin == 'l' {
                let on = fin == 'h';
                for &m in p {
                    match m {
                        25 => self.modes.cursor_visible = on,
                        1000 | 1002 | 1003 | 1005 | 1006 | 1015 => {
                            self.modes.mouse_modes_on.retain(|&x| x != m);
                            if on {
                                self.modes.mouse_modes_on.push(m);
                            }
                        }
                        1049 | 47 | 1047 => {
                            self.modes.alt_screen = on;
                        }
                        _ => {}
                    }
                }
            }
            return;
        }
        match fin {
            'H' | 'f' => {
                self.y = p0(1) as usize - 1;
                self.x = p.get(1).copied().filter(|&v| v != 0).unwrap_or(1) as usize - 1;
            }
            'J' => {
                // ratatui only uses full clears
                self.clear_all();
            }
            'K' => {
                if let Some(r) = self.grid.get_mut(self.y) {
                    let from = match p.first().copied().unwrap_or(0) {
                        0 => self.x,
                        _ => 0,
                    };
                    for c in r.iter_mut().skip(from) {
                        *c = Cell::default();
                    }
                }
            }
            'm' => self.sgr(p),
            'A' => self.y = self.y.saturating_sub(p0(1) as usize),
            'B' => self.y += p0(1) as usize,
            'C' => self.x += p0(1) as usize,
            'D' => self.x = self.x.saturating_sub(p0(1) as usize),
            'G' => self.x = p0(1) as usize - 1,
            'd' => self.y = p0(1) as usize - 1,
            'r' | 's' | 'u' | 't' | 'n' | 'c' | 'q' | 'h' | 'l' => {}
            _ => self.modes.unknown_sequences += 1,
        }
    }

    fn osc(&mut self, body: &str) {
        let parts: Vec<&str> = body.split(';').collect();
        if parts.len() == 4 && parts[0] == "777" && parts[1] == "frame" {
            let k = parts[2].parse().unwrap_or(0);
            let vt_us = parts[3].parse().unwrap_or(0);
            if k >= self.keep_from {
                self.frames.push(Frame { k, vt_us, rows: self.grid.clone() });
            }
            self.tail_text.clear();
        }
    }
}
