//! Runs the real client binary as a child process: under a kernel pty (radar) or with stdout
//! captured in a file (1090). The terminal is passive — input never comes from it — so it adds
//! no timing nondeterminism; all blocking points of the child are seams on virtual time.

use std::fs::File;
use std::io::Read;
use std::os::fd::{AsRawFd, FromRawFd, OwnedFd};
use std::os::unix::process::{CommandExt, ExitStatusExt};
use std::path::{Path, PathBuf};
use std::process::{Command, Stdio};
use std::time::{Duration, Instant};

use simcore::harness_error;
use simcore::kproto::KChild;

#[derive(Debug, Clone)]
pub struct ChildRun {
    /// exit code, or None when killed by a signal / by the wall-clock guard
    pub code: Option<i32>,
    pub signal: Option<i32>,
    pub wall_timeout: bool,
    /// bytes the child wrote to its terminal (radar) or stdout file (1090)
    pub out: Vec<u8>,
    pub stderr: String,
    pub seam_log: String,
    /// pty only: termios at exit equals the snapshot taken before the start
    pub termios_restored: Option<bool>,
    pub termios_diff: String,
}

thread_local! {
    static WORKDIR: std::cell::RefCell<Option<PathBuf>> = const { std::cell::RefCell::new(None) };
}

static WORKER_SEQ: std::sync::atomic::AtomicU64 = std::sync::atomic::AtomicU64::new(0);

/// per-thread scratch directory under /verif/work (removed by `cleanup_workdirs`)
pub fn workdir() -> PathBuf {
    WORKDIR.with(|w| {
        let mut w = w.borrow_mut();
        if w.is_none() {
            let n = WORKER_SEQ.fetch_add(1, std::sync::atomic::Ordering::Relaxed);
            let d = simcore::verif_dir().join("work").join("k").join(format!("{}-{}", std::process::id(), n));
            std::fs::create_dir_all(&d).unwrap_or_else(|e| harness_error(&format!("cannot create {}: {e}", d.display())));
            *w = Some(d);
        }
        w.clone().unwrap()
    })
}

pub fn cleanup_workdirs() {
    let base = simcore::verif_dir().join("work").join("k");
    if let Ok(rd) = std::fs::read_dir(&base) {
        let prefix = format!("{}-", std::process::id());
        for e in rd.flatten() {
            if e.file_name().to_string_lossy().starts_with(&prefix) {
                let _ = std::fs::remove_dir_all(e.path());
            }
        }
    }
}

fn termios_eq(a: &libc::termios, b: &libc::termios) -> (bool, String) {
    let mut d = vec![];
    if a.c_iflag != b.c_iflag {
        d.push(format!("iflag {:#o} -> {:#o}", a.c_iflag, b.c_iflag));
    }
    if a.c_oflag != b.c_oflag {
        d.push(format!("oflag {:#o} -> {:#o}", a.c_oflag, b.c_oflag));
    }
    if a.c_cflag != b.c_cflag {
        d.push(format!("cflag {:#o} -> {:#o}", a.c_cflag, b.c_cflag));
    }
    if a.c_lflag != b.c_lflag {
        d.push(format!(
            "lflag {:#o} -> {:#o} (ICANON {} ECHO {} ISIG {})",
            a.c_lflag,
            b.c_lflag,
            b.c_lflag & libc::ICANON != 0,
            b.c_lflag & libc::ECHO != 0,
            b.c_lflag & libc::ISIG != 0
        ));
    }
    if a.c_cc != b.c_cc {
        d.push("c_cc differs".to_string());
    }
    (d.is_empty(), d.join("; "))
}

pub struct Spec<'a> {
    pub exe: &'a Path,
    pub args: Vec<String>,
    pub child: &'a KChild,
    /// Some((cols, rows)) = run under a pty of that size; None = plain stdout file
    pub tty: Option<(u16, u16)>,
    pub wall_limit: Duration,
}

pub fn run_child(spec: &Spec) -> ChildRun {
    let dir = workdir();
    let sc_path = dir.join("scenario.json");
    let log_path = dir.join("seam.log");
    let err_path = dir.join("stderr.txt");
    let out_path = dir.join("stdout.txt");
    std::fs::write(&sc_path, serde_json::to_string(spec.child).unwrap()).unwrap_or_else(|e| harness_error(&format!("write scenario: {e}")));
    let _ = std::fs::remove_file(&log_path);
    let errf = File::create(&err_path).unwrap_or_else(|e| harness_error(&format!("create stderr file: {e}")));

    let mut cmd = Command::new(spec.exe);
    cmd.args(&spec.args)
        .env_clear()
        .env("TZ", spec.child.tz.as_deref().unwrap_or("UTC"))
        .env("TERM", "xterm-256color")
        .env("ADSB_VERIF_SCENARIO", &sc_path)
        .env("ADSB_VERIF_LOG", &log_path)
        .env("RUST_BACKTRACE", "0")
        .current_dir(&dir)
        .stderr(Stdio::from(errf));
    if let Some(v) = &spec.child.rust_log {
        cmd.env("RUST_LOG", v);
    }

    let mut master: Option<OwnedFd> = None;
    let mut slave_keep: Option<OwnedFd> = None;
    let mut initial: Option<libc::termios> = None;
    if let Some((cols, rows)) = spec.tty {
        let mut m: libc::c_int = -1;
        let mut s: libc::c_int = -1;
        let ws = libc::winsize { ws_row: rows, ws_col: cols, ws_xpixel: 0, ws_ypixel: 0 };
        let r = unsafe { libc::openpty(&mut m, &mut s, std::ptr::null_mut(), std::ptr::null(), &ws) };
        if r != 0 {
            harness_error(&format!("openpty failed: {}", std::io::Error::last_os_error()));
        }
        let (m, s) = unsafe { (OwnedFd::from_raw_fd(m), OwnedFd::from_raw_fd(s)) };
        unsafe {
            let fl = libc::fcntl(m.as_raw_fd(), libc::F_GETFL);
            libc::fcntl(m.as_raw_fd(), libc::F_SETFL, fl | libc::O_NONBLOCK);
            libc::fcntl(m.as_raw_fd(), libc::F_SETFD, libc::FD_CLOEXEC);
            libc::fcntl(s.as_raw_fd(), libc::F_SETFD, libc::FD_CLOEXEC);
        }
        let mut t: libc::termios = unsafe { std::mem::zeroed() };
        if unsafe { libc::tcgetattr(s.as_raw_fd(), &mut t) } != 0 {
            harness_error("tcgetattr on the pty slave failed");
        }
        initial = Some(t);
        let sin = s.try_clone().unwrap_or_else(|e| harness_error(&format!("dup: {e}")));
        let sout = s.try_clone().unwrap_or_else(|e| harness_error(&format!("dup: {e}")));
        cmd.stdin(Stdio::from(sin)).stdout(Stdio::from(sout));
        unsafe {
            cmd.pre_exec(|| {
                if libc::setsid() < 0 {
                    return Err(std::io::Error::last_os_error());
                }
                if libc::ioctl(0, libc::TIOCSCTTY, 0) < 0 {
                    return Err(std::io::Error::last_os_error());
                }
                Ok(())
            });
        }
        master = Some(m);
        slave_keep = Some(s);
    } else {
        let outf = File::create(&out_path).unwrap_or_else(|e| harness_error(&format!("create stdout file: {e}")));
        cmd.stdin(Stdio::null()).stdout(Stdio::from(outf));
    }

    let t0 = Instant::now();
    let mut child = cmd.spawn().unwrap_or_else(|e| harness_error(&format!("cannot spawn {}: {e}", spec.exe.display())));
    let mut out: Vec<u8> = Vec::with_capacity(64 * 1024);
    let mut wall_timeout = false;
    let status;
    let mut buf = [0u8; 65536];
    loop {
        if let Some(m) = &master {
            let mut pfd = libc::pollfd { fd: m.as_raw_fd(), events: libc::POLLIN, revents: 0 };
            unsafe { libc::poll(&mut pfd, 1, 2) };
            loop {
                let n = unsafe { libc::read(m.as_raw_fd(), buf.as_mut_ptr().cast(), buf.len()) };
                if n > 0 {
                    out.extend_from_slice(&buf[..n as usize]);
                } else {
                    break;
                }
            }
        } else {
            std::thread::sleep(Duration::from_millis(1));
        }
        match child.try_wait() {
            Ok(Some(st)) => {
                status = st;
                break;
            }
            Ok(None) => {}
            Err(e) => harness_error(&format!("wait: {e}")),
        }
        if t0.elapsed() > spec.wall_limit {
            // real-time guard against a child that spins without reaching any seam
            let _ = child.kill();
            wall_timeout = true;
            status = child.wait().unwrap_or_else(|e| harness_error(&format!("wait: {e}")));
            break;
        }
    }
    // drain what is left in the pty
    let mut termios_restored = None;
    let mut termios_diff = String::new();
    if let Some(m) = &master {
        loop {
            let n = unsafe { libc::read(m.as_raw_fd(), buf.as_mut_ptr().cast(), buf.len()) };
            if n > 0 {
                out.extend_from_slice(&buf[..n as usize]);
            } else {
                break;
            }
        }
        let mut t: libc::termios = unsafe { std::mem::zeroed() };
        let s = slave_keep.as_ref().unwrap();
        if unsafe { libc::tcgetattr(s.as_raw_fd(), &mut t) } == 0 {
            let (eq, diff) = termios_eq(initial.as_ref().unwrap(), &t);
            termios_restored = Some(eq);
            termios_diff = diff;
        }
    } else {
        let mut f = File::open(&out_path).unwrap_or_else(|e| harness_error(&format!("open stdout file: {e}")));
        let _ = f.read_to_end(&mut out);
    }
    drop(slave_keep);
    drop(master);
    let stderr = std::fs::read_to_string(&err_path).unwrap_or_default();
    let seam_log = std::fs::read_to_string(&log_path).unwrap_or_default();
    ChildRun { code: status.code(), signal: status.signal(), wall_timeout, out, stderr, seam_log, termios_restored, termios_diff }
}
