//! C16 — clients treat the feed as a byte stream; survive malformed input and disconnects.
//!
//! High-level scenario (lines, split points with gaps, closes, sessions) -> compiled to the
//! child's seam script. The oracle re-derives the reference (complete well-formed lines, in feed
//! order) from the compiled script, so shrinking can edit the scenario freely.

use std::panic::{catch_unwind, AssertUnwindSafe};
use std::time::Duration;

use adsb_deku::{Frame, DF, ICAO};
use rsadsb_common::Airplanes;
use serde::{Deserialize, Serialize};
use serde_json::{json, Value};
use simcore::kproto::*;
use simcore::{Fnv, Outcome, Rng};

use super::pty::{run_child, ChildRun, Spec};
use super::vt::{Frame as Screen, Vt};
use super::{exe, parse_log, LogEv};

pub const RX: (f64, f64) = (35.0, -80.0);

#[derive(Serialize, Deserialize, Clone, Debug, PartialEq)]
pub struct Close16 {
    /// byte offset at which the stream is cut (None = after every byte)
    pub cut: Option<usize>,
    /// delay between the last delivered segment and the close
    pub after_us: u64,
    pub rst: bool,
}

#[derive(Serialize, Deserialize, Clone, Debug, PartialEq)]
pub struct S16 {
    pub outcome: KOutcome,
    /// hex of the raw bytes of each line, terminator included
    pub lines: Vec<String>,
    /// (byte offset at which a new TCP segment starts, gap before it in us); offset 0 = first
    pub splits: Vec<(usize, u64)>,
    pub close: Option<Close16>,
    pub eintr_reads: Vec<u64>,
}

#[derive(Serialize, Deserialize, Clone, Debug, PartialEq)]
pub struct K16 {
    pub app: String,
    pub retry: bool,
    pub limit_parsing: bool,
    pub sessions: Vec<S16>,
    pub proc_delay_us: Vec<u64>,
    pub coalesce: Vec<bool>,
    pub f3_period_us: u64,
    /// fault provenance for the evidence counters
    pub faults: Vec<String>,
    /// quiet-feed variant: radar runs with `--filter-time=<this>` seconds and the (single, healthy)
    /// connection carries nothing for longer than that between two groups of lines
    #[serde(default)]
    pub quiet_filter_s: Option<u64>,
    /// `RUST_LOG` of the client (None = unset)
    #[serde(default)]
    pub rust_log: Option<String>,
    /// radar runs with `--airports airports.csv` (a usable file) and the file is deleted / garbled /
    /// cut short at the first connect attempt after the first accepted session
    #[serde(default)]
    pub airports_spoiled: Option<String>,
    /// the server stays away for this many refused connection attempts after the first session
    /// (an outage of ten minutes and more)
    #[serde(default)]
    pub long_outage: Option<u32>,
    /// volume: before the lines of the first session arrive, the server sends ("bytes", n) one
    /// garbage line of 1 MiB n times (n x 1 MiB of feed), or ("lines", n) a block of 250 velocity
    /// reports of one aircraft n times (250 n well-formed lines)
    #[serde(default)]
    pub volume: Option<(String, u32)>,
}

fn volume_block(kind: &str) -> Vec<u8> {
    if kind == "bytes" {
        let mut v = vec![b'g'; (1 << 20) - 2];
        v.extend_from_slice(b";\n");
        v
    } else {
        let addr = [0xa7, 0x16, 0x01];
        let mut t = String::new();
        for i in 0..250u32 {
            let me = wire::me_velocity(1, 0, wire::sub_ground_speed(0, 1 + (i % 900) as u16, 0, 1 + (i * 7 % 900) as u16), 0, 0, 1 + (i % 300) as u16, 0, 3);
            t.push_str(&format!("*{};\n", wire::hex(&wire::df17(5, addr, me))));
        }
        t.into_bytes()
    }
}

fn stream_of(s: &S16) -> Vec<u8> {
    let mut v = vec![];
    for l in &s.lines {
        v.extend_from_slice(&wire::unhex(l));
    }
    if let Some(c) = &s.close {
        if let Some(cut) = c.cut {
            v.truncate(cut);
        }
    }
    v
}

pub fn compile(sc: &K16) -> KChild {
    let mut connects = vec![];
    let mut t_total: u64 = 0;
    let mut nlines = 0u64;
    for s in &sc.sessions {
        match s.outcome {
            KOutcome::Refuse => {
                t_total += 12_000;
                connects.push(KConnect { outcome: KOutcome::Refuse, segments: vec![], close_at_us: None, rst: false, eintr_reads: vec![] });
            }
            KOutcome::Fail(e) => {
                t_total += 12_000;
                connects.push(KConnect { outcome: KOutcome::Fail(e), segments: vec![], close_at_us: None, rst: false, eintr_reads: vec![] });
            }
            KOutcome::Timeout => {
                t_total += 10_020_000;
                connects.push(KConnect { outcome: KOutcome::Timeout, segments: vec![], close_at_us: None, rst: false, eintr_reads: vec![] });
            }
            KOutcome::Accept => {
                let stream = stream_of(s);
                let mut cuts: Vec<(usize, u64)> = s.splits.iter().copied().filter(|(o, _)| *o < stream.len()).collect();
                cuts.sort();
                cuts.dedup_by_key(|c| c.0);
                if cuts.first().map(|c| c.0) != Some(0) {
                    cuts.insert(0, (0, 20_000));
                }
                let mut segments = vec![];
                let mut t = 0u64;
                for (i, (off, gap)) in cuts.iter().enumerate() {
                    t += gap;
                    let end = cuts.get(i + 1).map(|c| c.0).unwrap_or(stream.len());
                    if end > *off {
                        segments.push(KSegment { at_us: t, hex: wire::hex(&stream[*off..end]), repeat: 0 });
                    }
                }
                let close_at_us = s.close.as_ref().map(|c| t + c.after_us);
                nlines += s.lines.len() as u64;
                t_total += close_at_us.unwrap_or(t) + 20_000;
                connects.push(KConnect { outcome: KOutcome::Accept, segments, close_at_us, rst: s.close.as_ref().map(|c| c.rst).unwrap_or(false), eintr_reads: s.eintr_reads.clone() });
            }
        }
    }
    let mut volume_iterations = 0u64;
    if let Some((kind, n)) = &sc.volume {
        if let Some(c) = connects.iter_mut().find(|c| c.outcome == KOutcome::Accept) {
            let block = volume_block(kind);
            // one main-loop iteration (>= 10 ms of virtual time) per line
            volume_iterations = if kind == "bytes" { *n as u64 } else { 250 * *n as u64 };
            for s in c.segments.iter_mut() {
                s.at_us += 10_000;
            }
            c.segments.insert(0, KSegment { at_us: 10_000, hex: wire::hex(&block), repeat: *n });
            t_total += volume_iterations * 10_500;
        }
    }
    let outage = match (sc.long_outage, connects.iter().position(|c| c.outcome == KOutcome::Accept)) {
        (Some(n), Some(i)) if i + 1 < connects.len() => {
            // at most 11 ms per attempt (10 ms poll + the refused connect)
            t_total += n as u64 * 11_100;
            Some((i + 1, n))
        }
        _ => None,
    };
    let max_delay = sc.proc_delay_us.iter().copied().max().unwrap_or(0);
    // every (re)connect costs the client up to two drawn frames (waiting screen, first frame of
    // the session) with their processing delay, plus a poll or two: with a hundred sessions that
    // is more than the closing margin below
    t_total += sc.sessions.len() as u64 * (2 * max_delay + 40_000);
    let margin = (nlines + 30) * (70_000 + max_delay);
    let t_end = t_total + margin;
    let mut events = vec![];
    if sc.app == "radar" {
        let mut t = 15_000;
        while t < t_end {
            events.push(KEvent { at_us: t, ev: KEv::Key { code: "F3".into(), ctrl: false, shift: false, alt: false } });
            t += sc.f3_period_us.max(50_000);
        }
        events.push(KEvent { at_us: t_end, ev: KEv::Key { code: "c:q".into(), ctrl: false, shift: false, alt: false } });
    }
    let file_ops = match (&sc.airports_spoiled, connects.iter().position(|c| c.outcome == KOutcome::Accept)) {
        (Some(what), Some(i)) if i + 1 < connects.len() => vec![(i + 1, "airports.csv".to_string(), what.clone())],
        _ => vec![],
    };
    KChild { winsz_ops: vec![], outage, tz: None, file_ops, rust_log: sc.rust_log.clone(), gpsd: None, ev_delay_us: vec![], connects, events, proc_delay_us: sc.proc_delay_us.clone(), coalesce: sc.coalesce.clone(), step_budget: 60_000 + 4 * outage.map(|o| o.1 as u64).unwrap_or(0) + if sc.volume.is_some() { 4 * volume_iterations + 1_200_000 } else { 0 } }
}

// ---------------------------------------------------------------------------- generation

struct LineGen {
    ctr: u32,
    addrs: Vec<[u8; 3]>,
    odd: bool,
}

impl LineGen {
    fn frame(&mut self, rng: &mut Rng, for_1090: bool) -> Vec<u8> {
        self.ctr += 1;
        let a = self.addrs[rng.usize_below(self.addrs.len())];
        let df18 = rng.chance(0.15);
        let mk = |me: [u8; 7], rng: &mut Rng| if df18 { wire::df18(rng.below(7) as u8, a, me) } else { wire::df17(5, a, me) };
        let _ = for_1090;
        if rng.chance(0.07) {
            // replies that are nearly the all-zero heartbeat without being it: DF0 from an aircraft
            // without ACAS (first bytes 00 00, only the address/parity bytes differ from zero), a
            // DF0 with one field set, an extended squitter with an all-zero message
            return match rng.below(5) {
                0 => wire::short_ap(0, 0, a),
                1 => wire::short_ap(0, rng.below(0x800) as u32, a),
                2 => wire::short_ap(0, 1 << rng.below(27), a),
                3 => mk([0; 7], rng),
                _ => {
                    let mut v = vec![0u8; if rng.coin() { 7 } else { 14 }];
                    let n = v.len();
                    v[n - 1 - rng.usize_below(3)] = 1 << rng.below(8);
                    v
                }
            };
        }
        match rng.below(6) {
            0 => mk(wire::me_identification(4, 0, &format!("T{:05}", self.ctr)), rng),
            1 | 2 => {
                self.odd = !self.odd;
                let k = (a[2] % 8) as f64;
                let lat = RX.0 + 0.2 + 0.07 * k + 0.0004 * self.ctr as f64;
                let lon = RX.1 - 0.3 + 0.05 * k + 0.0004 * self.ctr as f64;
                let (yz, xz) = wire::cpr_encode(lat, lon, self.odd);
                mk(wire::me_airborne_position(11, 0, 0, wire::ac12_q(20_000 + 25 * (self.ctr as i32 % 800)), false, self.odd, yz, xz), rng)
            }
            3 => mk(wire::me_velocity(1, 0, wire::sub_ground_speed(0, 1 + (self.ctr % 900) as u16, 1, 1 + (self.ctr * 7 % 900) as u16), 0, 0, 1 + (self.ctr % 300) as u16, 0, 3), rng),
            4 => {
                // a reply of another downlink format carrying the same address
                match rng.below(3) {
                    0 => wire::df11(5, a),
                    1 => wire::short_ap(4, (self.ctr & 0x1fff) | 0x10, a),
                    _ => wire::short_ap(5, self.ctr & 0x1fff, a),
                }
            }
            _ => {
                // replies of every other downlink format, with arbitrary payload bytes
                let mut p = [0u8; 11];
                for x in p.iter_mut() {
                    *x = rng.next_u64() as u8;
                }
                match rng.below(7) {
                    0 => wire::df11((self.ctr % 8) as u8, a),
                    1 => wire::short_ap(0, rng.next_u64() as u32, a),
                    2 => wire::short_ap(4, rng.next_u64() as u32, a),
                    3 => wire::short_ap(5, rng.next_u64() as u32, a),
                    4 => wire::long_ap(16, p, a),
                    5 => wire::long_ap(20 + rng.below(2) as u8, p, a),
                    _ => wire::long_ap(24 + rng.below(8) as u8, p, a),
                }
            }
        }
    }

    fn good_line(&mut self, rng: &mut Rng, for_1090: bool) -> Vec<u8> {
        let mut f = self.frame(rng, for_1090);
        // now and then two frames glued into one line, or a frame with extra hex bytes behind it
        // (the reference decodes the very same bytes, so whatever the decoder makes of them counts)
        match rng.below(40) {
            0 => {
                let g = self.frame(rng, for_1090);
                f.extend_from_slice(&g);
            }
            1 => f.extend((0..1 + rng.below(20)).map(|_| rng.next_u64() as u8)),
            2 => {
                // every leading byte now and then: each downlink format has its own read pattern
                let mut g: Vec<u8> = (0..14 + rng.usize_below(16)).map(|_| rng.next_u64() as u8).collect();
                g[0] = (rng.below(32) as u8) << 3 | rng.below(8) as u8;
                f = g;
            }
            _ => {}
        }
        let mut h = wire::hex(&f);
        match rng.below(10) {
            0 | 1 => h = h.to_uppercase(),
            2 => h = h.chars().map(|c| if rng.coin() { c.to_ascii_uppercase() } else { c }).collect(),
            _ => {}
        }
        format!("*{h};\n").into_bytes()
    }
}

pub const MALFORMED: [&str; 16] =
    ["at_prefixed_short", "random_printable", "empty", "semicolon_only", "star_semicolon", "too_short", "odd_digits", "non_hex", "non_ascii_inside", "non_ascii_first", "invalid_utf8", "all_zero_short", "all_zero_long", "undecodable_df", "truncated_long_frame", "overlong_garbage"];

fn malformed_line(rng: &mut Rng, class: &str, lg: &mut LineGen) -> Vec<u8> {
    lg.ctr += 1;
    match class {
        // other feed dialects' prefixes, too short to carry a frame (e.g. a bare MLAT timestamp)
        "at_prefixed_short" => {
            let k = rng.usize_below(13);
            let mut v = vec![*rng.pick(&[b'@', b'@', b'%', b'<', b':', b'#'])];
            v.extend((0..k).map(|_| b"0123456789abcdefABCDEF"[rng.usize_below(22)]));
            v.extend_from_slice(b";\n");
            v
        }
        // arbitrary printable bytes that are certainly not `*<hex>;`
        "random_printable" => {
            let n = rng.usize_below(40);
            let mut v: Vec<u8> = vec![*rng.pick(&[b'!', b'$', b'&', b'+', b'-', b'.', b'>', b'=', b'?', b'~', b'g', b' '])];
            v.extend((0..n).map(|_| 0x20 + rng.below(0x5f) as u8));
            v.push(b'z');
            if rng.coin() {
                v.push(b';');
            }
            v.push(b'\n');
            v
        }
        "empty" => b"\n".to_vec(),
        "semicolon_only" => b";\n".to_vec(),
        "star_semicolon" => b"*;\n".to_vec(),
        "too_short" => b"*8d;\n".to_vec(),
        "odd_digits" => b"*8d4840d6202cc371c32ce057609;\n".to_vec(),
        "non_hex" => b"*8d4840d6202cc3zzc32ce0576098;\n".to_vec(),
        "non_ascii_inside" => "*8d4840d6\u{e9}02cc371c32ce0576098;\n".as_bytes().to_vec(),
        "non_ascii_first" => "\u{e9}zz4840d6202cc371c32ce057609g;\n".as_bytes().to_vec(),
        "invalid_utf8" => {
            let mut v = b"*8d4840d6".to_vec();
            v.extend_from_slice(&[0xff, 0xfe]);
            v.extend_from_slice(b"c371c32ce0576098;\n");
            v
        }
        "all_zero_short" => b"*00000000000000;\n".to_vec(),
        "all_zero_long" => b"*0000000000000000000000000000;\n".to_vec(),
        "undecodable_df" => format!("*{:02x}{:012x};\n", 0x08 + 8 * rng.below(3), lg.ctr as u64 + 0x10_0000).into_bytes(),
        "truncated_long_frame" => format!("*8d{:012x};\n", lg.ctr as u64 + 0x4840_d620_0000).into_bytes(),
        _ => {
            let mut v = b"*".to_vec();
            let n = match rng.below(4) {
                0 => 300 + rng.usize_below(1200),
                1 => 4000 + rng.usize_below(200), // around 4 KiB
                2 => 8100 + rng.usize_below(200), // around one BufReader fill
                _ => 9000 + rng.usize_below(12_000),
            };
            v.extend(std::iter::repeat(b'g').take(n));
            v.extend_from_slice(b";\n");
            v
        }
    }
}

#[allow(clippy::too_many_lines)]
pub fn generate(rng: &mut Rng, fault_free: bool) -> K16 {
    let app = if rng.chance(0.7) { "radar" } else { "1090" };
    let for_1090 = app == "1090";
    let retry = !for_1090 && !fault_free && rng.chance(0.4);
    let limit_parsing = !for_1090 && rng.chance(0.15);
    let mut faults: Vec<String> = vec![];
    let naddr = 1 + rng.usize_below(5);
    let mut lg = LineGen { ctr: rng.below(1000) as u32, addrs: (0..naddr).map(|i| if rng.chance(0.3) { [rng.next_u64() as u8, rng.next_u64() as u8, rng.next_u64() as u8] } else { [0xa0, rng.below(4) as u8, 1 + i as u8] }).collect(), odd: false };
    lg.addrs.sort();
    lg.addrs.dedup();
    // swarm: which fault kinds are on in this run
    let malformed_rate: f64 = if !fault_free && rng.coin() { *rng.pick(&[0.05, 0.15, 0.4]) } else { 0.0 };
    let seg_mode = if fault_free { 0 } else { rng.below(6) }; // 0 line aligned, 1 many lines per segment, 2 random cuts, 3 one-byte stretch, 4 cut before terminators, 5 mixed
    let gaps_benign = [100_000u64, 150_000, 300_000];
    let gaps_all = [0u64, 1_000, 49_000, 50_000, 51_000, 60_000, 200_000, 5_000_000, 0, 1_000, 20_000, 49_999, 50_001];
    let big_gap_budget = std::cell::Cell::new(3);
    let pick_gap = |rng: &mut Rng| -> u64 {
        if fault_free {
            *rng.pick(&gaps_benign)
        } else {
            let g = *rng.pick(&gaps_all);
            if g >= 5_000_000 {
                if big_gap_budget.get() == 0 {
                    return 200_000;
                }
                big_gap_budget.set(big_gap_budget.get() - 1);
            }
            g
        }
    };

    let rust_log = if !fault_free && rng.chance(0.3) { Some((*rng.pick(&["trace", "debug", "info", "rsadsb_common=trace", "radar=trace,adsb_deku=debug", "warn", ""])).to_string()) } else { None };
    if rust_log.is_some() {
        faults.push("diagnostics_switched_on".into());
    }
    if !fault_free && !for_1090 && rng.chance(0.003) {
        // volume: 4 GiB and more of feed, or 65 000 and more lines, on one connection, then a few
        // ordinary lines (whatever counts bytes or lines has run past 2^32 / 2^16 by then)
        let kind = if rng.coin() { "bytes" } else { "lines" };
        let n = if kind == "bytes" { 4_100 + rng.below(60) as u32 } else { 263 + rng.below(20) as u32 };
        let mut lines: Vec<Vec<u8>> = vec![];
        let mut splits: Vec<(usize, u64)> = vec![(0, 20_000)];
        let mut off = 0usize;
        for i in 0..3 + rng.usize_below(6) {
            if i > 0 {
                splits.push((off, *rng.pick(&[0u64, 1_000, 60_000])));
            }
            let l = lg.good_line(rng, false);
            off += l.len();
            lines.push(l);
        }
        faults.push(if kind == "bytes" { "volume_over_4_gib".into() } else { "volume_over_65535_lines".into() });
        let sessions = vec![S16 { outcome: KOutcome::Accept, lines: lines.iter().map(|l| wire::hex(l)).collect(), splits, close: None, eintr_reads: vec![] }];
        return K16 { app: app.into(), retry: false, limit_parsing: false, sessions, proc_delay_us: vec![], coalesce: vec![], f3_period_us: 1_000_000, faults, quiet_filter_s: None, rust_log: None, airports_spoiled: None, long_outage: None, volume: Some((kind.to_string(), n)) };
    }
    if !fault_free && !for_1090 && rng.chance(0.05) {
        // quiet feed: a healthy connection that carries nothing for longer than the expiry time
        // (night, a receiver out of range of everything), then traffic again. Nobody disconnected:
        // every later line still has to be processed, over this connection.
        let f = *rng.pick(&[6u64, 8]);
        let gap = f * 1_000_000 + 1_500_000 + rng.below(f * 1_500_000);
        let small = [0u64, 1_000, 20_000, 49_000, 51_000, 60_000];
        let mut lines: Vec<Vec<u8>> = vec![];
        let mut splits: Vec<(usize, u64)> = vec![(0, 20_000)];
        let npre = 1 + rng.usize_below(7);
        let npost = 1 + rng.usize_below(7);
        let mut off = 0usize;
        for i in 0..npre + npost {
            if i > 0 {
                splits.push((off, if i == npre { gap } else { *rng.pick(&small) }));
            }
            let l = if malformed_rate > 0.0 && rng.chance(malformed_rate) {
                let class = *rng.pick(&MALFORMED[..15]);
                malformed_line(rng, class, &mut lg)
            } else {
                lg.good_line(rng, false)
            };
            off += l.len();
            lines.push(l);
        }
        faults.push("quiet_longer_than_expiry_time".into());
        let eintr_reads = if rng.chance(0.3) { (0..1 + rng.below(4)).map(|_| rng.below(40)).collect() } else { vec![] };
        let sessions = vec![S16 { outcome: KOutcome::Accept, lines: lines.iter().map(|l| wire::hex(l)).collect(), splits, close: None, eintr_reads }];
        return K16 { app: app.into(), retry, limit_parsing, sessions, proc_delay_us: vec![], coalesce: (0..16).map(|_| rng.chance(0.7)).collect(), f3_period_us: 250_000, faults, quiet_filter_s: Some(f), rust_log, airports_spoiled: None, long_outage: None, volume: None };
    }
    let nsess_accept = if retry { 1 + rng.usize_below(3) } else { 1 };
    let mut sessions = vec![];
    let deep = simcore::deep() && rng.chance(0.33);
    // a few runs deliver a backlog of several hundred lines in very few segments (a client that
    // was suspended, or a feed busier than the client): more than one full BufReader fill
    let burst = !fault_free && rng.chance(0.04);
    let total_lines = if burst { 260 + rng.usize_below(200) } else { 3 + rng.usize_below(if deep { 120 } else if for_1090 { 30 } else { 38 }) };
    let malformed_rate = if burst { malformed_rate.min(0.05) } else { malformed_rate };
    let seg_mode = if burst { 1 } else { seg_mode };
    if burst {
        faults.push("backlog_burst".into());
    }
    for si in 0..nsess_accept {
        if retry || (!for_1090 && !fault_free && rng.chance(0.2)) {
            // server not (yet) up: refused / timed-out connects before this accept
            for _ in 0..rng.below(3) {
                let o = match rng.below(20) {
                    0..=12 => KOutcome::Refuse,
                    13..=15 => KOutcome::Timeout,
                    // ENETUNREACH, EHOSTUNREACH, ENETDOWN, ECONNRESET, ECONNABORTED, EINTR, EACCES, EADDRNOTAVAIL
                    _ => KOutcome::Fail(*rng.pick(&[101, 113, 100, 104, 103, 4, 13, 99])),
                };
                faults.push(match o {
                    KOutcome::Refuse => "connect_refused".into(),
                    KOutcome::Timeout => "connect_timeout".into(),
                    _ => "connect_fails_otherwise".into(),
                });
                sessions.push(S16 { outcome: o, lines: vec![], splits: vec![], close: None, eintr_reads: vec![] });
            }
        }
        let n = (total_lines / nsess_accept).max(1);
        let mut lines: Vec<Vec<u8>> = vec![];
        for _ in 0..n {
            if malformed_rate > 0.0 && rng.chance(malformed_rate) {
                let class = *rng.pick(&MALFORMED);
                faults.push(format!("malformed_line:{class}"));
                lines.push(malformed_line(rng, class, &mut lg));
                // bias: a good line right behind the malformed one (same segment, usually)
                if rng.chance(0.7) {
                    lines.push(lg.good_line(rng, for_1090));
                }
            } else {
                lines.push(lg.good_line(rng, for_1090));
            }
        }
        let total: usize = lines.iter().map(Vec::len).sum();
        let mut line_starts = vec![];
        let mut o = 0;
        for l in &lines {
            line_starts.push(o);
            o += l.len();
        }
        let mut splits: Vec<(usize, u64)> = vec![(0, pick_gap(rng).max(1_000))];
        let mode = if seg_mode == 5 { rng.below(5) } else { seg_mode };
        match mode {
            0 => {
                for &st in line_starts.iter().skip(1) {
                    splits.push((st, pick_gap(rng)));
                }
            }
            1 => {
                for &st in line_starts.iter().skip(1) {
                    if rng.chance(if burst { 0.004 } else { 0.3 }) {
                        splits.push((st, pick_gap(rng)));
                    }
                }
                faults.push("many_lines_per_segment".into());
            }
            2 => {
                let k = 1 + rng.usize_below(total.min(30));
                for _ in 0..k {
                    splits.push((1 + rng.usize_below(total.max(2) - 1), pick_gap(rng)));
                }
                faults.push("mid_line_split".into());
            }
            3 => {
                // a stretch of one-byte segments
                let st = rng.usize_below(total);
                for o in st..(st + 40).min(total) {
                    splits.push((o, *rng.pick(&[0u64, 0, 1_000, 51_000])));
                }
                for &st in line_starts.iter().skip(1) {
                    if rng.coin() {
                        splits.push((st, pick_gap(rng)));
                    }
                }
                faults.push("one_byte_segments".into());
            }
            _ => {
                // cuts right before ';' or '\n'
                for (i, &st) in line_starts.iter().enumerate() {
                    let len = lines[i].len();
                    if len >= 3 && rng.chance(0.5) {
                        let back = if rng.coin() { 1 } else { 2 };
                        splits.push((st + len - back, pick_gap(rng)));
                    }
                    if i > 0 && rng.coin() {
                        splits.push((st, pick_gap(rng)));
                    }
                }
                faults.push("split_before_terminator".into());
            }
        }
        splits.sort();
        splits.dedup_by_key(|c| c.0);
        let last_session = si + 1 == nsess_accept;
        let close = if for_1090 {
            if rng.coin() {
                Some(Close16 { cut: None, after_us: pick_gap(rng) + 1_000, rst: false })
            } else {
                None
            }
        } else if !last_session || (!retry && rng.chance(0.5)) {
            // disconnect: at a line boundary, or mid-line strictly before the ';'
            let cut = if !fault_free && rng.chance(0.4) && !lines.is_empty() {
                let li = rng.usize_below(lines.len());
                let len = lines[li].len();
                if len > 3 {
                    faults.push("disconnect_mid_line".into());
                    Some(line_starts[li] + 1 + rng.usize_below(len - 3))
                } else {
                    None
                }
            } else {
                None
            };
            faults.push("server_disconnect".into());
            let rst = !fault_free && rng.chance(0.3);
            if rst {
                faults.push("connection_reset".into());
            }
            Some(Close16 { cut, after_us: pick_gap(rng) + 1_000, rst })
        } else {
            None
        };
        let eintr_reads = if !fault_free && rng.chance(0.3) {
            faults.push("read_eintr".into());
            (0..1 + rng.below(4)).map(|_| rng.below(40)).collect()
        } else {
            vec![]
        };
        sessions.push(S16 { outcome: KOutcome::Accept, lines: lines.iter().map(|l| wire::hex(l)).collect(), splits, close, eintr_reads });
    }
    if retry && rng.chance(0.06) {
        // a flapping forwarder: the port accepts and hangs up at once, again and again (ssh / socat
        // / nginx in front of a receiver that is down), before the feed comes back
        let n = *rng.pick(&[5usize, 31, 63, 64, 65, 70, 130]);
        let at = sessions.iter().position(|s| s.outcome == KOutcome::Accept).map(|i| i + 1).unwrap_or(0);
        for _ in 0..n {
            let rst = rng.chance(0.2);
            sessions.insert(at, S16 { outcome: KOutcome::Accept, lines: vec![], splits: vec![], close: Some(Close16 { cut: None, after_us: 1_000 + rng.below(4_000), rst }), eintr_reads: vec![] });
        }
        faults.push("flapping_connection".into());
    }
    let nsess_accept = sessions.iter().filter(|s| s.outcome == KOutcome::Accept).count();
    let airports_spoiled = if retry && nsess_accept >= 2 && rng.chance(0.3) {
        faults.push("airports_file_spoiled_while_disconnected".into());
        Some((*rng.pick(&["delete", "garble", "truncate"])).to_string())
    } else {
        None
    };
    let long_outage = if retry && nsess_accept >= 2 && rng.chance(0.04) {
        faults.push("outage_of_tens_of_thousands_of_attempts".into());
        Some(*rng.pick(&[33_000u32, 66_000, 70_000, 131_500]))
    } else {
        None
    };
    let proc_delay_us = if !fault_free && rng.chance(0.4) {
        faults.push("slow_iteration".into());
        (0..8).map(|_| *rng.pick(&[0u64, 0, 0, 5_000, 60_000, 300_000])).collect()
    } else {
        vec![]
    };
    let coalesce = if fault_free { vec![] } else { (0..16).map(|_| rng.chance(0.7)).collect() };
    K16 { app: app.into(), retry, limit_parsing, sessions, proc_delay_us, coalesce, f3_period_us: *rng.pick(&[250_000u64, 400_000, 1_000_000]), faults, quiet_filter_s: None, rust_log, airports_spoiled, long_outage, volume: None }
}

// ---------------------------------------------------------------------------- reference

#[derive(Clone, Debug, PartialEq)]
pub struct Row {
    pub icao: String,
    pub callsign: String,
    pub lat: String,
    pub lon: String,
    pub alt: String,
    pub dist: String,
    pub msgs: String,
    /// reference rows only: the tracker's numeric values (lat, lon, distance)
    pub vals: Option<(f64, f64, f64)>,
    /// reference rows only: acceptable altitude cells (the altitudes of the stored reports)
    pub alt_ok: Vec<String>,
    /// reference rows only: position known but only one stored report carries an altitude — the
    /// statement leaves open whether the details are shown then (either all or none)
    pub may_be_blank: bool,
}

/// does the text shown in a cell represent `val` at the precision it is shown with?
/// (the statement does not fix the number of decimals; a wrong value or a value where none
/// should be shown is a mismatch)
pub fn num_shown_matches(shown: &str, val: Option<f64>) -> bool {
    match val {
        None => shown.is_empty(),
        Some(v) => {
            let Ok(x) = shown.parse::<f64>() else { return false };
            let decimals = shown.split('.').nth(1).map(str::len).unwrap_or(0) as i32;
            (x - v).abs() <= 0.5 * 10f64.powi(-decimals) * (1.0 + 1e-9) + 1e-12
        }
    }
}

pub fn row_matches(shown: &Row, reference: &Row) -> bool {
    if shown.icao != reference.icao || shown.callsign != reference.callsign || shown.msgs != reference.msgs {
        return false;
    }
    let blank = shown.lat.is_empty() && shown.lon.is_empty() && shown.alt.is_empty() && shown.dist.is_empty();
    match reference.vals {
        None => blank,
        Some(v) => {
            (blank && reference.may_be_blank)
                || (reference.alt_ok.contains(&shown.alt) && num_shown_matches(&shown.lat, Some(v.0)) && num_shown_matches(&shown.lon, Some(v.1)) && num_shown_matches(&shown.dist, Some(v.2)))
        }
    }
}

/// the rows on screen show tracker records: every row matches the record of its address, no
/// address twice, and nothing that is not tracked. (The statement does not fix the row order, nor
/// which rows a long, scrolled table shows.)
fn rows_are_records(shown: &[Row], reference: &[Row]) -> bool {
    let mut seen = std::collections::BTreeSet::new();
    shown.iter().all(|r| seen.insert(r.icao.clone()) && reference.iter().find(|x| x.icao == r.icao).map(|x| row_matches(r, x)).unwrap_or(false))
}

/// more aircraft than fit on the page: the visible rows are a subset of the records
pub fn window_match(shown: &[Row], reference: &[Row], _selected: bool) -> bool {
    if shown.len() >= reference.len() {
        return tables_match(shown, reference);
    }
    !shown.is_empty() && rows_are_records(shown, reference)
}

pub fn tables_match(shown: &[Row], reference: &[Row]) -> bool {
    shown.len() == reference.len() && rows_are_records(shown, reference)
}

/// Reference rows, built from the tracker's RECORDS (`get`), not from its derived views: the
/// position columns are filled exactly when the record has a position, a distance and an altitude
/// in one of its stored reports.
pub fn table_of(a: &Airplanes) -> Vec<Row> {
    let mut v = vec![];
    for k in a.keys() {
        let st = a.get(*k).unwrap();
        let c = &st.coords;
        let alts: Vec<u16> = c.altitudes.iter().flatten().filter_map(|r| r.alt).collect();
        let (lat, lon, alt, dist, vals, alt_ok, may_be_blank) = match (c.position, c.kilo_distance, alts.is_empty()) {
            (Some(p), Some(d), false) => {
                let ok: Vec<String> = alts.iter().map(u16::to_string).collect();
                (format!("{:.3}", p.latitude), format!("{:.3}", p.longitude), ok[0].clone(), format!("{d:.3}"), Some((p.latitude, p.longitude, d)), ok, alts.len() < 2)
            }
            _ => (String::new(), String::new(), String::new(), String::new(), None, vec![String::new()], false),
        };
        v.push(Row { icao: format!("{:02x}{:02x}{:02x}", k.0[0], k.0[1], k.0[2]), callsign: st.callsign.clone().unwrap_or_default(), lat, lon, alt, dist, msgs: st.num_messages.to_string(), vals, alt_ok, may_be_blank });
    }
    v
}

/// classify one complete line (terminator stripped) the way the feed format defines it
pub fn well_formed_frame(line: &[u8]) -> Option<Vec<u8>> {
    if line.len() < 2 || line[0] != b'*' || line[line.len() - 1] != b';' {
        return None;
    }
    let inner = &line[1..line.len() - 1];
    if inner.is_empty() || inner.len() % 2 != 0 || !inner.iter().all(u8::is_ascii_hexdigit) {
        return None;
    }
    let bytes = wire::unhex(std::str::from_utf8(inner).ok()?);
    if bytes.iter().all(|&b| b == 0) {
        return None;
    }
    Some(bytes)
}

pub struct RefLine {
    /// global byte offset (over all accepted sessions, in order) just past this line
    pub end: usize,
    pub bytes: Vec<u8>,
}

/// complete well-formed decodable lines, in feed order, of the sessions' delivered streams
pub fn reference_lines(child: &KChild) -> (Vec<RefLine>, usize, usize) {
    let mut out = vec![];
    let mut base = 0usize;
    let mut complete = 0usize;
    for c in &child.connects {
        if c.outcome != KOutcome::Accept {
            continue;
        }
        // a repeated segment (volume runs) is the first one of its connection and made of whole
        // lines: its lines are classified once and laid out `repeat` times
        let mut segs: Vec<&KSegment> = c.segments.iter().filter(|s| c.close_at_us.map(|cl| s.at_us <= cl).unwrap_or(true)).collect();
        if let Some(first) = segs.first().copied().filter(|s| s.repeat > 1) {
            let block = wire::unhex(&first.hex);
            if block.last() != Some(&b'\n') {
                simcore::harness_error("a repeated segment must end with a line terminator");
            }
            let mut in_block: Vec<(usize, Vec<u8>)> = vec![];
            let mut nlines = 0usize;
            let mut start = 0;
            for (i, &b) in block.iter().enumerate() {
                if b == b'\n' {
                    nlines += 1;
                    if let Some(bytes) = well_formed_frame(&block[start..i]) {
                        if catch_unwind(AssertUnwindSafe(|| Frame::from_bytes(&bytes).is_ok())).unwrap_or(false) {
                            in_block.push((i + 1, bytes));
                        }
                    }
                    start = i + 1;
                }
            }
            for _ in 0..first.repeat {
                for (e, bytes) in &in_block {
                    out.push(RefLine { end: base + e, bytes: bytes.clone() });
                }
                complete += nlines;
                base += block.len();
            }
            segs.remove(0);
        }
        let mut stream = vec![];
        for s in segs {
            stream.extend_from_slice(&wire::unhex(&s.hex));
        }
        let mut start = 0;
        for (i, &b) in stream.iter().enumerate() {
            if b == b'\n' {
                let line = &stream[start..i];
                complete += 1;
                if let Some(bytes) = well_formed_frame(line) {
                    let ok = catch_unwind(AssertUnwindSafe(|| Frame::from_bytes(&bytes).is_ok())).unwrap_or(false);
                    if ok {
                        out.push(RefLine { end: base + i + 1, bytes });
                    }
                }
                start = i + 1;
            }
        }
        base += stream.len();
    }
    (out, complete, base)
}

fn is_es(bytes: &[u8]) -> bool {
    matches!(bytes[0] >> 3, 17 | 18)
}

// ---------------------------------------------------------------------------- screen parsing

pub const COLS: [(usize, usize); 10] = [(0, 6), (7, 16), (17, 24), (25, 32), (33, 40), (41, 49), (50, 56), (57, 62), (63, 71), (72, 78)];

/// rows of the Airplanes table as drawn (None when the Airplanes tab is not on screen)
pub fn parse_airplanes_tab(s: &Screen) -> Option<(Vec<Row>, Vec<Vec<String>>, bool)> {
    let (hx, hy) = s.find("ICAO   Call sign")?;
    // with a selection every row is shifted by the 3-cell highlight column
    let mut rows = vec![];
    let mut raw = vec![];
    let mut any_selected = false;
    for y in hy + 2..s.rows.len() {
        let r: Vec<char> = s.rows[y].iter().map(|c| c.ch).collect();
        if r.len() <= hx {
            break;
        }
        // with a selection ratatui shifts header and rows right by the 3-cell highlight column
        if hx >= 3 && r.iter().skip(hx - 3).take(3).collect::<String>() == ">> " {
            any_selected = true;
        }
        let cell = |a: usize, b: usize| -> String { r.iter().skip(hx + a).take(b - a).collect::<String>().trim().to_string() };
        let icao = cell(COLS[0].0, COLS[0].1);
        if icao.is_empty() || icao.starts_with('└') || icao.starts_with('─') {
            break;
        }
        let cells: Vec<String> = COLS.iter().map(|(a, b)| cell(*a, *b)).collect();
        rows.push(Row { icao: cells[0].clone(), callsign: cells[1].clone(), lat: cells[2].clone(), lon: cells[3].clone(), alt: cells[5].clone(), dist: cells[8].clone(), msgs: cells[9].clone(), vals: None, alt_ok: vec![], may_be_blank: false });
        raw.push(cells);
    }
    Some((rows, raw, any_selected))
}

pub fn tab_bar_count(s: &Screen) -> Option<usize> {
    // the tab bar is the first row that shows "Airplanes(" together with "Coverage"
    for y in 0..s.rows.len().min(6) {
        let t = s.row_text(y);
        if t.contains("Coverage") {
            let i = t.find("Airplanes(")?;
            let rest = &t[i + 10..];
            let j = rest.find(')')?;
            return rest[..j].parse().ok();
        }
    }
    None
}

// ---------------------------------------------------------------------------- execution + oracle

pub struct Parsed {
    pub run: ChildRun,
    pub vt: Vt,
    pub log: Vec<LogEv>,
}

pub fn end_of_run_checks(prop: &str, p: &Parsed, out: &mut Outcome, expect_exit_ok: bool) {
    let r = &p.run;
    if let Some(loc) = super::main_panic_location(&r.stderr) {
        out.violate(format!("{prop}:client-panicked:{loc}"), format!("the client panicked (exit status {:?})\nstderr:\n{}", r.code, r.stderr.lines().take(8).collect::<Vec<_>>().join("\n")));
        return;
    }
    if r.wall_timeout {
        out.violate(format!("{prop}:client-stuck-without-reaching-a-seam"), "the client had to be killed by the real-time guard".to_string());
        return;
    }
    if p.log.iter().any(|l| matches!(l, LogEv::Budget)) {
        out.violate(format!("{prop}:client-hang"), "the client exceeded the step budget without terminating (seam log ends with BUDGET)".to_string());
        return;
    }
    if expect_exit_ok {
        // radar always ends by a quit request or a disconnect; a harness stop means it sat in a call
        // that would never have returned (e.g. a read without timeout) with the operator locked out
        if let Some(LogEv::Stop { why, t }) = p.log.iter().find(|l| matches!(l, LogEv::Stop { .. })) {
            out.violate(format!("{prop}:client-blocked-forever:{}", why.split(' ').next().unwrap_or("")), format!("at t={t}us the client entered a call that never returns ({why}); it no longer draws or serves operator events (quit included)"));
            return;
        }
        if r.code != Some(0) {
            out.violate(format!("{prop}:exit-status:{:?}", r.code.or(r.signal.map(|s| -s))), format!("exit status {:?} signal {:?}\nstderr:\n{}", r.code, r.signal, r.stderr.lines().take(8).collect::<Vec<_>>().join("\n")));
            return;
        }
        if r.termios_restored == Some(false) {
            out.violate(format!("{prop}:terminal-not-restored:termios"), format!("terminal modes at exit differ from the modes found at start: {}", r.termios_diff));
            return;
        }
        if !p.vt.modes.cursor_visible {
            out.violate(format!("{prop}:terminal-not-restored:cursor-hidden"), "the cursor is still hidden after exit".to_string());
            return;
        }
        if !p.vt.modes.mouse_modes_on.is_empty() {
            out.violate(format!("{prop}:terminal-not-restored:mouse-reporting-on"), format!("mouse reporting modes still on after exit: {:?}", p.vt.modes.mouse_modes_on));
            return;
        }
        if p.vt.modes.alt_screen {
            out.violate(format!("{prop}:terminal-not-restored:alternate-screen"), "still in the alternate screen after exit".to_string());
        }
    }
}

pub fn run_k16(sc: &K16) -> (KChild, Parsed) {
    let child = compile(sc);
    let radar = sc.app == "radar";
    let mut args: Vec<String> = vec![];
    if radar {
        args.extend(["--lat=35.0", "--long=-80.0", "--log-folder=logs"].iter().map(|s| s.to_string()));
        args.push(format!("--filter-time={}", sc.quiet_filter_s.unwrap_or(1_000_000)));
        if sc.retry {
            args.push("--retry-tcp".into());
        }
        if sc.limit_parsing {
            args.push("--limit-parsing".into());
        }
        if sc.airports_spoiled.is_some() {
            args.push("--airports".into());
            args.push(super::c17::prepare_airports("valid", RX));
        }
    }
    let run = run_child(&Spec { exe: &exe(if radar { "radar" } else { "1090" }), args, child: &child, tty: if radar { Some((120, 40)) } else { None }, wall_limit: Duration::from_secs(if sc.volume.is_some() { 600 } else { 30 }) });
    let mut vt = Vt::new();
    if let Some((kind, n)) = &sc.volume {
        // tens of thousands of frames: only the last few hundred are kept as screen copies
        vt.keep_from = (if kind == "bytes" { *n as u64 } else { 250 * *n as u64 }).saturating_sub(300);
    }
    if radar {
        vt.feed(&run.out);
    }
    let log = parse_log(&run.seam_log);
    (child, Parsed { run, vt, log })
}

#[allow(clippy::too_many_lines)]
pub fn execute(sc: &K16) -> Outcome {
    let mut out = Outcome::default();
    let (child, p) = run_k16(sc);
    for f in &sc.faults {
        // counted as fired when the child actually reached the session / line
        simcore::bump(&mut out.faults, leak_fault_name(f));
    }
    let mut h = Fnv::new();
    h.str(&p.run.seam_log);
    h.bytes(&p.run.out);
    h.u64(p.run.code.unwrap_or(-1) as u64);
    out.trace_hash = h.finish();
    out.steps = p.log.len() as u64;
    out.virtual_ns = p.log.last().map(LogEv::time_us).unwrap_or(0) * 1000;
    for l in &p.log {
        match l {
            LogEv::Rd { kind, .. } if kind == "wouldblock" => out.probe("read_timeout_hit"),
            LogEv::Rd { kind, segs, .. } if kind == "data" && *segs >= 2 => out.probe("several_segments_in_one_read"),
            LogEv::Rd { kind, .. } if kind == "eintr" => out.fault("read_eintr_fired"),
            LogEv::Rd { kind, .. } if kind == "rst" => out.fault("connection_reset_fired"),
            LogEv::Rd { kind, .. } if kind == "eof" => out.probe("eof_seen_by_client"),
            LogEv::Connect { what, .. } if what.starts_with("accept") => out.probe("session_accepted"),
            _ => {}
        }
    }
    if std::env::var("VERIF_K_DUMP").is_ok() {
        println!("--- seam log\n{}", p.run.seam_log);
        println!("--- stderr\n{}", p.run.stderr);
        if let Some(f) = p.vt.frames.last() {
            println!("--- last frame {}\n{}", f.k, f.text().join("\n"));
        }
        if sc.app != "radar" {
            println!("--- stdout\n{}", String::from_utf8_lossy(&p.run.out));
        }
    }
    let (reference, _complete, _total) = reference_lines(&child);
    let radar = sc.app == "radar";
    let disconnect_exit = radar && !sc.retry && sc.sessions.iter().any(|s| s.outcome == KOutcome::Accept && s.close.is_some());
    end_of_run_checks("C16", &p, &mut out, radar);
    if out.violation.is_some() {
        return out;
    }
    if radar && sc.quiet_filter_s.is_some() {
        check_radar_quiet(sc, &child, &p, &reference, &mut out);
    } else if radar {
        check_radar(sc, &p, &reference, disconnect_exit, &mut out);
    } else {
        check_1090(&p, &reference, &mut out);
    }
    out
}

fn leak_fault_name(f: &str) -> &'static str {
    // fault names are a closed set; map to 'static for the counters
    const NAMES: [&str; 37] = [
        "flapping_connection",
        "volume_over_4_gib",
        "volume_over_65535_lines",
        "outage_of_tens_of_thousands_of_attempts",
        "airports_file_spoiled_while_disconnected",
        "connect_fails_otherwise",
        "diagnostics_switched_on",
        "quiet_longer_than_expiry_time",
        "malformed_line:at_prefixed_short",
        "malformed_line:random_printable",
        "backlog_burst",
        "connect_refused",
        "connect_timeout",
        "many_lines_per_segment",
        "mid_line_split",
        "one_byte_segments",
        "split_before_terminator",
        "disconnect_mid_line",
        "server_disconnect",
        "connection_reset",
        "read_eintr",
        "slow_iteration",
        "malformed_line:empty",
        "malformed_line:semicolon_only",
        "malformed_line:star_semicolon",
        "malformed_line:too_short",
        "malformed_line:odd_digits",
        "malformed_line:non_hex",
        "malformed_line:non_ascii_inside",
        "malformed_line:non_ascii_first",
        "malformed_line:invalid_utf8",
        "malformed_line:all_zero_short",
        "malformed_line:all_zero_long",
        "malformed_line:undecodable_df",
        "malformed_line:truncated_long_frame",
        "malformed_line:overlong_garbage",
        "other",
    ];
    NAMES.iter().find(|n| **n == f).copied().unwrap_or("other")
}

fn check_radar(sc: &K16, p: &Parsed, reference: &[RefLine], disconnect_exit: bool, out: &mut Outcome) {
    // reference tracker states after each effective line (ES frames; DF17 only with --limit-parsing)
    let eff: Vec<&RefLine> = reference.iter().filter(|l| if sc.limit_parsing { l.bytes[0] >> 3 == 17 } else { is_es(&l.bytes) }).collect();
    let mut tr = Airplanes::new();
    let mut tables: Vec<Vec<Row>> = vec![table_of(&tr)];
    for l in &eff {
        if let Ok(f) = Frame::from_bytes(&l.bytes) {
            debug_assert!(matches!(f.df, DF::ADSB(_) | DF::TisB { .. }));
            let _ = tr.action(f, RX, 500.0);
        }
        tables.push(table_of(&tr));
    }
    let m = eff.len();
    // delivered bytes at each frame, from the seam log
    let mut totals: std::collections::BTreeMap<u64, usize> = std::collections::BTreeMap::new();
    for l in &p.log {
        if let LogEv::Frame { k, total, .. } = l {
            totals.insert(*k, *total);
        }
    }
    // vacuity guard: if the client drew many frames after connecting but not one of them shows a
    // tab bar the parser recognises, the screen format changed and nothing could be judged; that is
    // a harness error (exit 2), never a silent pass
    let connected_frames = p.vt.frames.iter().filter(|f| f.rows.len() >= 6).count();
    if connected_frames >= 40 && p.vt.frames.iter().all(|f| tab_bar_count(f).is_none()) && p.log.iter().any(|l| matches!(l, LogEv::Connect { what, .. } if what.starts_with("accept"))) {
        simcore::harness_error("C16: no drawn frame shows a tab bar of the form 'Map .. Coverage .. Airplanes(N)': the screen parser does not recognise this UI, nothing can be judged");
    }
    let mut j_prev = 0usize;
    let mut frames_with_table = 0;
    let mut last_j: Option<usize> = None;
    for s in &p.vt.frames {
        let Some(n) = tab_bar_count(s) else {
            // "waiting for connection" screen, or the frame of a tiny terminal
            continue;
        };
        let total = totals.get(&s.k).copied().unwrap_or(usize::MAX);
        let c_k = eff.iter().filter(|l| l.end <= total).count();
        match parse_airplanes_tab(s) {
            Some((rows, _, _)) => {
                frames_with_table += 1;
                let j: usize = rows.iter().map(|r| r.msgs.parse::<usize>().unwrap_or(0)).sum();
                if j < j_prev {
                    out.violate("C16:processed-lines-went-backwards", format!("frame {} (t={}us): the table shows {j} processed frames in total, an earlier frame showed {j_prev}", s.k, s.vt_us));
                    return;
                }
                if j > c_k {
                    out.violate("C16:more-frames-counted-than-lines-delivered", format!("frame {} (t={}us): the table shows {j} processed frames but only {c_k} complete well-formed lines had been delivered by then (a line was processed twice or a fragment was taken for a line)\n{}", s.k, s.vt_us, dump_rows(&rows)));
                    return;
                }
                if j > m || !tables_match(&rows, &tables[j]) {
                    out.violate(
                        "C16:table-is-not-a-prefix-of-the-feed",
                        format!("frame {} (t={}us): the table shows {j} processed frames, but it is not the state after the first {j} well-formed lines of the feed (lines lost, reordered or duplicated)\nshown:\n{}\nexpected:\n{}", s.k, s.vt_us, dump_rows(&rows), dump_rows(tables.get(j).map(Vec::as_slice).unwrap_or(&[]))),
                    );
                    return;
                }
                if n != rows.len() {
                    out.violate("C16:tab-count-differs-from-table", format!("frame {}: tab bar says Airplanes({n}) but {} rows", s.k, rows.len()));
                    return;
                }
                j_prev = j;
                last_j = Some(j);
            }
            None => {
                // other tab on screen: only the tracked count is visible
                let ok = (j_prev..=c_k.min(m)).find(|&j| tables[j].len() == n);
                match ok {
                    Some(j) => j_prev = j_prev.max(j.min(j_prev.max(j))),
                    None => {
                        out.violate("C16:tracked-count-not-explained-by-feed-prefix", format!("frame {} (t={}us): Airplanes({n}) cannot be explained by any prefix of the feed between {j_prev} and {c_k} lines", s.k, s.vt_us));
                        return;
                    }
                }
            }
        }
    }
    if frames_with_table > 0 {
        out.probe("airplanes_table_judged");
    }
    // bounded liveness: by the last drawn frame (quit is scheduled (lines+30) iterations after the
    // last byte; a disconnect is only seen after every buffered line) the whole feed is processed
    let delivered_all = if disconnect_exit || !sc.retry {
        // only the first accepted session is ever seen
        true
    } else {
        true
    };
    if delivered_all {
        // sessions after a no-retry disconnect are never connected: restrict m accordingly
        let m_seen = if !sc.retry {
            let first_end = first_session_len(sc);
            eff.iter().filter(|l| l.end <= first_end).count()
        } else {
            m
        };
        match last_j {
            Some(j) if j == m_seen => {
                out.probe("whole_feed_processed_at_end");
            }
            Some(j) => {
                out.violate(
                    "C16:lines-lost-at-end-of-run",
                    format!("at the last drawn frame {j} of the {m_seen} complete well-formed lines of the feed had been processed, although every byte had been delivered at least {} iterations earlier\nexpected final table:\n{}", 30, dump_rows(&tables[m_seen.min(m)])),
                );
            }
            None => {
                // the client left (disconnect) before the first F3 took effect: only the tab-bar
                // counts could be judged in this run
                out.probe("run_ended_before_table_visible");
            }
        }
    }
    if sc.retry && sc.sessions.iter().filter(|s| s.outcome == KOutcome::Accept).count() >= 2 {
        out.probe("reconnect_with_aircraft_retained");
    }
    if disconnect_exit {
        out.probe("clean_exit_on_disconnect");
    }
}

/// Quiet-feed variant (`--filter-time=F`, one healthy connection, nothing for longer than F between
/// two groups of lines). Nobody disconnected, so radar has to keep the connection and process the
/// second group as well. The history is judged in two phases split by the bytes delivered: until
/// the first byte of the second group the table is a prefix state of the first group (or, once F
/// has passed since the first line, those rows on their way out); afterwards it is a prefix state
/// of the second group alone, and at the end all of it.
fn check_radar_quiet(sc: &K16, child: &KChild, p: &Parsed, reference: &[RefLine], out: &mut Outcome) {
    let f_us = sc.quiet_filter_s.unwrap_or(0) * 1_000_000;
    // phase boundary: the largest gap between two segments of the only accepted connection
    let Some(conn) = child.connects.iter().find(|c| c.outcome == KOutcome::Accept) else { return };
    let mut pre_bytes = 0usize;
    let mut best: Option<(u64, usize, u64, u64)> = None; // (gap, bytes before, t before, t after)
    let mut acc = 0usize;
    for w in conn.segments.windows(2) {
        acc += w[0].hex.len() / 2;
        let gap = w[1].at_us - w[0].at_us;
        if best.map(|b| gap > b.0).unwrap_or(true) {
            best = Some((gap, acc, w[0].at_us, w[1].at_us));
        }
    }
    let first_at = conn.segments.first().map(|s| s.at_us).unwrap_or(0);
    let last_at = conn.segments.last().map(|s| s.at_us).unwrap_or(0);
    let structure_ok = match best {
        Some((gap, b, t0, t1)) => {
            pre_bytes = b;
            gap >= f_us + 1_000_000 && t0 - first_at < 1_500_000 && last_at - t1 < 1_500_000 && child.connects.iter().filter(|c| c.outcome == KOutcome::Accept).count() == 1 && conn.close_at_us.is_none()
        }
        None => false,
    };
    if !structure_ok {
        // a shrinking candidate that lost the two-group structure: nothing to judge
        out.probe("quiet_structure_lost");
        return;
    }
    let eff: Vec<&RefLine> = reference.iter().filter(|l| if sc.limit_parsing { l.bytes[0] >> 3 == 17 } else { is_es(&l.bytes) }).collect();
    let build = |ls: &[&RefLine]| -> Vec<Vec<Row>> {
        let mut tr = Airplanes::new();
        let mut t = vec![table_of(&tr)];
        for l in ls {
            if let Ok(f) = Frame::from_bytes(&l.bytes) {
                let _ = tr.action(f, RX, 500.0);
            }
            t.push(table_of(&tr));
        }
        t
    };
    let pre: Vec<&RefLine> = eff.iter().copied().filter(|l| l.end <= pre_bytes).collect();
    let post: Vec<&RefLine> = eff.iter().copied().filter(|l| l.end > pre_bytes).collect();
    let (tp, tq) = (build(&pre), build(&post));
    let mut totals: std::collections::BTreeMap<u64, usize> = std::collections::BTreeMap::new();
    for l in &p.log {
        if let LogEv::Frame { k, total, .. } = l {
            totals.insert(*k, *total);
        }
    }
    let first_data_us = p.log.iter().find_map(|l| match l {
        LogEv::Rd { kind, t, .. } if kind == "data" => Some(*t),
        _ => None,
    });
    let accepts = p.log.iter().filter(|l| matches!(l, LogEv::Connect { what, .. } if what.starts_with("accept"))).count();
    let connects = p.log.iter().filter(|l| matches!(l, LogEv::Connect { .. })).count();
    if accepts == 1 && connects > sc.sessions.len() {
        out.violate("C16:healthy-connection-abandoned", format!("radar opened a new connection although the server never closed the one it had (quiet for {} s with --filter-time={}); what the server sends on the old connection is lost", best.map(|b| b.0).unwrap_or(0) / 1_000_000, sc.quiet_filter_s.unwrap_or(0)));
        return;
    }
    let (mut jp_prev, mut jq_prev) = (0usize, 0usize);
    let mut last: Option<(bool, usize)> = None;
    let mut silent_frames = 0;
    for s in &p.vt.frames {
        if tab_bar_count(s).is_none() {
            continue;
        }
        let Some((rows, _, _)) = parse_airplanes_tab(s) else { continue };
        let total = totals.get(&s.k).copied().unwrap_or(usize::MAX);
        let j: usize = rows.iter().map(|r| r.msgs.parse::<usize>().unwrap_or(0)).sum();
        if total <= pre_bytes {
            let c_k = pre.iter().filter(|l| l.end <= total).count();
            let expiring = first_data_us.map(|t0| s.vt_us >= t0 + f_us).unwrap_or(false);
            if expiring {
                silent_frames += 1;
                // rows on their way out: each still exactly a row of the first group's final table
                let fin = tp.last().unwrap();
                if !rows.iter().all(|r| fin.iter().any(|x| row_matches(r, x))) {
                    out.violate("C16:table-is-not-a-prefix-of-the-feed", format!("frame {} (t={}us, quiet period): a row is shown that the first group of lines never produced
shown:
{}
first group's final table:
{}", s.k, s.vt_us, dump_rows(&rows), dump_rows(fin)));
                    return;
                }
            } else {
                if j < jp_prev || j > c_k || j >= tp.len() || !tables_match(&rows, &tp[j]) {
                    out.violate("C16:table-is-not-a-prefix-of-the-feed", format!("frame {} (t={}us, first group): the table shows {j} processed frames (earlier {jp_prev}, delivered {c_k}) and is not the state after the first {j} well-formed lines
shown:
{}
expected:
{}", s.k, s.vt_us, dump_rows(&rows), dump_rows(tp.get(j).map(Vec::as_slice).unwrap_or(&[]))));
                    return;
                }
                jp_prev = j;
            }
            last = Some((false, j));
        } else {
            let c_k = post.iter().filter(|l| l.end <= total).count();
            if j < jq_prev || j > c_k || j >= tq.len() || !tables_match(&rows, &tq[j]) {
                out.violate("C16:table-is-not-a-prefix-of-the-feed", format!("frame {} (t={}us, after the quiet period): the table shows {j} processed frames (earlier {jq_prev}, delivered {c_k}) and is not the state after the first {j} well-formed lines sent after the quiet period
shown:
{}
expected:
{}", s.k, s.vt_us, dump_rows(&rows), dump_rows(tq.get(j).map(Vec::as_slice).unwrap_or(&[]))));
                return;
            }
            jq_prev = j;
            last = Some((true, j));
        }
    }
    if silent_frames > 0 {
        out.probe("quiet_period_longer_than_expiry_time_drawn");
    }
    match last {
        Some((true, j)) if j == post.len() => out.probe("whole_feed_processed_at_end"),
        Some((ph, j)) => out.violate("C16:lines-lost-at-end-of-run", format!("at the last drawn frame {} of the {} well-formed lines sent after the quiet period had been processed (the connection was never closed by the server)
expected final table:
{}", if ph { j } else { 0 }, post.len(), dump_rows(tq.last().unwrap()))),
        None => out.probe("run_ended_before_table_visible"),
    }
}

fn first_session_len(sc: &K16) -> usize {
    let volume = sc.volume.as_ref().map(|(kind, n)| volume_block(kind).len() * *n as usize).unwrap_or(0);
    volume + sc.sessions.iter().find(|s| s.outcome == KOutcome::Accept).map(|s| stream_of(s).len()).unwrap_or(0)
}

fn dump_rows(rows: &[Row]) -> String {
    rows.iter().map(|r| format!("  {} {:9} {:>8} {:>9} {:>6} {:>9} {:>4}", r.icao, r.callsign, r.lat, r.lon, r.alt, r.dist, r.msgs)).collect::<Vec<_>>().join("\n")
}

fn check_1090(p: &Parsed, reference: &[RefLine], out: &mut Outcome) {
    if p.run.code != Some(0) {
        out.violate(format!("C16:1090-terminated:{:?}", p.run.code), format!("1090 must keep running; exit status {:?}\nstderr:\n{}", p.run.code, p.run.stderr.lines().take(6).collect::<Vec<_>>().join("\n")));
        return;
    }
    let text = String::from_utf8_lossy(&p.run.out).to_string();
    // report lines start with a space; echo lines are one bare token; separators are blank
    let got: Vec<&str> = text.lines().filter(|l| l.starts_with(' ')).collect();
    let mut want: Vec<String> = vec![];
    for l in reference {
        if let Ok(f) = Frame::from_bytes(&l.bytes) {
            for line in f.to_string().lines() {
                if !line.is_empty() {
                    want.push(line.to_string());
                }
            }
        }
    }
    if got.len() != want.len() || got.iter().zip(want.iter()).any(|(a, b)| a != b) {
        let idx = got.iter().zip(want.iter()).position(|(a, b)| a != b).unwrap_or(got.len().min(want.len()));
        out.violate(
            "C16:1090-output-is-not-the-feed-in-order",
            format!(
                "the reports printed by 1090 differ from the reports of the complete well-formed lines of the feed, in order, each exactly once\nfirst difference at report line {idx}:\n got : {:?}\n want: {:?}\n({} report lines printed, {} expected, {} reference frames)",
                got.get(idx),
                want.get(idx),
                got.len(),
                want.len(),
                reference.len()
            ),
        );
        return;
    }
    out.probe("1090_output_equals_feed");
    let _ = ICAO([0, 0, 0]);
}

pub fn shrink(sc: &K16) -> Vec<K16> {
    let mut c = vec![];
    // drop whole sessions (keep at least one accept)
    for i in 0..sc.sessions.len() {
        let mut s = sc.clone();
        s.sessions.remove(i);
        if s.sessions.iter().any(|x| x.outcome == KOutcome::Accept) {
            c.push(s);
        }
    }
    for (si, s) in sc.sessions.iter().enumerate() {
        if s.outcome != KOutcome::Accept {
            continue;
        }
        // drop lines (chunks first), fixing up split offsets
        let n = s.lines.len();
        let mut size = n;
        while size >= 1 {
            let mut start = 0;
            while start < n {
                let end = (start + size).min(n);
                if end - start < n {
                    c.push(with_lines_dropped(sc, si, start, end));
                }
                start += size;
            }
            if size == 1 {
                break;
            }
            size /= 2;
        }
        // fewer split points, smaller gaps
        for k in 1..s.splits.len() {
            let mut x = sc.clone();
            x.sessions[si].splits.remove(k);
            c.push(x);
        }
        for k in 0..s.splits.len() {
            if s.splits[k].1 > 60_000 {
                let mut x = sc.clone();
                x.sessions[si].splits[k].1 = 60_000;
                c.push(x);
            }
            if s.splits[k].1 != 0 && s.splits[k].1 != 60_000 {
                let mut x = sc.clone();
                x.sessions[si].splits[k].1 = 0;
                c.push(x);
            }
        }
        if !s.eintr_reads.is_empty() {
            let mut x = sc.clone();
            x.sessions[si].eintr_reads.clear();
            c.push(x);
        }
        if let Some(cl) = &s.close {
            if cl.rst {
                let mut x = sc.clone();
                x.sessions[si].close.as_mut().unwrap().rst = false;
                c.push(x);
            }
            if cl.cut.is_some() {
                let mut x = sc.clone();
                x.sessions[si].close.as_mut().unwrap().cut = None;
                c.push(x);
            }
        }
    }
    if sc.rust_log.is_some() {
        let mut x = sc.clone();
        x.rust_log = None;
        c.push(x);
    }
    if sc.airports_spoiled.is_some() {
        let mut x = sc.clone();
        x.airports_spoiled = None;
        c.push(x);
    }
    if let Some((kind, n)) = &sc.volume {
        let mut x = sc.clone();
        x.volume = None;
        c.push(x);
        for m in [n / 2, n - n / 8, n - 1] {
            if m >= 1 && m < *n {
                let mut x = sc.clone();
                x.volume = Some((kind.clone(), m));
                c.push(x);
            }
        }
    }
    if let Some(n) = sc.long_outage {
        let mut x = sc.clone();
        x.long_outage = None;
        c.push(x);
        for m in [n / 2, n - n / 8, n - 1] {
            if m >= 1 && m < n {
                let mut x = sc.clone();
                x.long_outage = Some(m);
                c.push(x);
            }
        }
    }
    if !sc.proc_delay_us.is_empty() {
        let mut x = sc.clone();
        x.proc_delay_us.clear();
        c.push(x);
    }
    if !sc.coalesce.is_empty() {
        let mut x = sc.clone();
        x.coalesce.clear();
        c.push(x);
    }
    if sc.limit_parsing {
        let mut x = sc.clone();
        x.limit_parsing = false;
        c.push(x);
    }
    if sc.f3_period_us != 1_000_000 {
        let mut x = sc.clone();
        x.f3_period_us = 1_000_000;
        c.push(x);
    }
    if !sc.faults.is_empty() {
        let mut x = sc.clone();
        x.faults.clear();
        c.push(x);
    }
    c
}

fn with_lines_dropped(sc: &K16, si: usize, start: usize, end: usize) -> K16 {
    let mut x = sc.clone();
    let s = &mut x.sessions[si];
    let lens: Vec<usize> = s.lines.iter().map(|l| l.len() / 2).collect();
    let a: usize = lens[..start].iter().sum();
    let b: usize = lens[..end].iter().sum();
    let removed = b - a;
    s.lines.drain(start..end);
    let mut ns = vec![];
    for (o, g) in &s.splits {
        if *o < a || *o == 0 {
            ns.push((*o, *g));
        } else if *o >= b {
            ns.push((*o - removed, *g));
        }
    }
    ns.sort();
    ns.dedup_by_key(|c| c.0);
    s.splits = ns;
    if let Some(c) = s.close.as_mut() {
        if let Some(cut) = c.cut {
            c.cut = if cut >= b {
                Some(cut - removed)
            } else if cut <= a {
                Some(cut)
            } else {
                None
            };
        }
    }
    x
}

pub fn describe(sc: &K16) -> Value {
    json!({
        "app": sc.app, "retry_tcp": sc.retry, "limit_parsing": sc.limit_parsing,
        "faults": sc.faults,
        "sessions": sc.sessions.iter().map(|s| json!({
            "outcome": format!("{:?}", s.outcome),
            "lines": s.lines.len(),
            "first_lines": s.lines.iter().take(4).map(|l| String::from_utf8_lossy(&wire::unhex(l)).to_string()).collect::<Vec<_>>(),
            "segments": s.splits.len(),
            "first_splits(offset,gap_us)": s.splits.iter().take(8).collect::<Vec<_>>(),
            "close": s.close.as_ref().map(|c| format!("cut={:?} after={}us rst={}", c.cut, c.after_us, c.rst)),
            "eintr_reads": s.eintr_reads,
        })).collect::<Vec<_>>(),
        "proc_delay_us": sc.proc_delay_us,
    })
}
