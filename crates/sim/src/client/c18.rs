//! C18 — what the radar shows is the tracker's data, placed truthfully on the map.
//!
//! Phase A: benign traffic (one well-formed line per segment) while the operator only switches
//! tabs and toggles label options — every drawn Airplanes / Stats / Map frame is compared with a
//! reference tracker driven at exactly the virtual times of the child's seam log (incl. expiry).
//! Phase B (traffic over): view controls (zoom, pan, drag, scroll, centre-on-aircraft), then
//! reset — the data must be unchanged and the Map frame must equal the one before the controls.

use std::collections::BTreeMap;
use std::time::{Duration, SystemTime};

use adsb_deku::{Frame, ICAO};
use rsadsb_common::Airplanes;
use serde::{Deserialize, Serialize};
use serde_json::{json, Value};
use simcore::kproto::*;
use simcore::{drop_chunks, Fnv, Outcome, Rng};

use super::c16::{end_of_run_checks, num_shown_matches, parse_airplanes_tab, tab_bar_count, table_of, window_match, Parsed, Row};
use super::pty::{run_child, Spec};
use super::vt::{Frame as Screen, Vt};
use super::{exe, parse_log, LogEv};

#[derive(Serialize, Deserialize, Clone, Debug, PartialEq)]
pub struct K18 {
    pub cols: u16,
    pub rows: u16,
    pub filter_time: u64,
    /// (name, lat offset, lon offset) relative to the receiver
    pub locations: Vec<(String, f64, f64)>,
    pub flags: Vec<String>,
    /// (arrival us, frame hex), one line per segment
    pub lines: Vec<(u64, String)>,
    /// phase A: tab switches / toggles, interleaved with traffic
    pub events_a: Vec<KEvent>,
    /// phase B: view controls, relative to the start of phase B
    pub events_b: Vec<KEvent>,
    /// long-count mode: this many extra frames of one aircraft arrive as a backlog (hundreds of
    /// lines per segment) before anything else; frames are judged once the backlog is consumed
    #[serde(default)]
    pub bulk: usize,
    /// more aircraft than fit on one page, packed closely: only data is judged, not label geometry
    #[serde(default)]
    pub many: bool,
    /// receiver position (--lat / --long); default (35, -80)
    #[serde(default = "default_rx")]
    pub rx: (f64, f64),
    /// mobile receiver: radar runs with `--gpsd`; `--lat/--long` name a place this far from the
    /// receiver, and the gpsd daemon reports the receiver's real position (`rx`) before any traffic
    #[serde(default)]
    pub gpsd_cli_offset: Option<(f64, f64)>,
    /// mobile receiver on the move: half way through the traffic phase the daemon starts to report
    /// `rx` + this offset
    #[serde(default)]
    pub gpsd_move: Option<(f64, f64)>,
    /// `RUST_LOG` of the client (None = unset)
    #[serde(default)]
    pub rust_log: Option<String>,
    /// `TZ` of the client (None = UTC)
    #[serde(default)]
    pub tz: Option<String>,
    /// radar runs with `--airports` naming a file with two airports in the far corners of the map
    #[serde(default)]
    pub airports: bool,
    /// the backlog (`bulk`) consists of position reports of an aircraft flying circles inside the
    /// view: one aircraft with thousands of track points on the map
    #[serde(default)]
    pub bulk_orbit: bool,
}

fn default_rx() -> (f64, f64) {
    (35.0, -80.0)
}

/// receivers in all four hemispheres, and close enough to the equator / prime meridian that the
/// marker and aircraft offsets straddle them (small negative coordinates, sign changes)
const RECEIVERS: [(f64, f64); 8] = [(35.0, -80.0), (35.0, -80.0), (-35.0, 150.0), (52.0, 4.0), (0.2, 0.3), (-0.3, -0.2), (-33.9, -70.7), (1.3, 103.9)];

fn alt_of_slot(slot: i32, high: i32) -> i32 {
    match high {
        1 => 47_975 - 25 * slot,
        2 => 48_000 + 25 * slot,
        3 => 50_175 - 100 * slot,
        4 => 30_000 + 4_000 * slot,
        _ => 5_000 + 2_000 * slot,
    }
}

fn key(code: &str) -> KEv {
    KEv::Key { code: code.into(), ctrl: false, shift: false, alt: false }
}

const D_LAT: f64 = 0.5;
const D_LON: f64 = 0.4;

/// "Two lives": an aircraft is looked at on the Airplanes tab, the operator moves to another tab,
/// the aircraft expires and comes back (with new data and often exactly as many messages as it
/// had when last looked at), and the operator returns to the Airplanes tab.
fn generate_two_lives(rng: &mut Rng) -> K18 {
    let rx = *rng.pick(&RECEIVERS);
    let filter_time = 2u64;
    let slots: [(f64, f64); 3] = [(0.25, 0.3), (-0.75, 0.9), (0.75, -0.9)];
    let lat_f = rx.0.to_radians().cos() / 35.0f64.to_radians().cos();
    let nac = 1 + rng.usize_below(3);
    let mut lines: Vec<(u64, String)> = vec![];
    let frame = |rng: &mut Rng, addr: [u8; 3], k: u32, life: u32, slot: usize| -> String {
        let (dlat, dlon) = (slots[slot].0 * lat_f + 0.05 * life as f64, slots[slot].1);
        let me = match k % 3 {
            0 => wire::me_identification(4, 0, &format!("L{life}X{slot}")),
            _ => {
                let odd = k % 3 == 2;
                let (yz, xz) = wire::cpr_encode(rx.0 + dlat, rx.1 + dlon, odd);
                wire::me_airborne_position(11, 0, 0, wire::ac12_q(8_000 + 4_000 * life as i32 + 1_000 * slot as i32), false, odd, yz, xz)
            }
        };
        let _ = rng;
        wire::hex(&wire::df17(5, addr, me))
    };
    let n1: Vec<u32> = (0..nac).map(|_| 1 + rng.below(6) as u32).collect();
    let mut t = 200_000u64;
    for k in 0..6u32 {
        for a in 0..nac {
            if k < n1[a] {
                lines.push((t, frame(rng, [0xa1, 0x30, a as u8 + 1], k, 1, a)));
                t += 130_000;
            }
        }
    }
    let look = t + 150_000; // F3 glance: every aircraft is seen with its first-life count
    let leave = look + 300_000 + rng.below(300_000);
    let back_traffic = leave + (filter_time + 1) * 1_000_000 + rng.below(600_000);
    let mut t2 = back_traffic;
    for a in 0..nac {
        // second life: exactly as many frames as before, or one more / fewer
        let n2 = match rng.below(4) {
            0 => n1[a] + 1,
            1 => n1[a].saturating_sub(1).max(1),
            _ => n1[a],
        };
        if rng.chance(0.85) {
            for k in 0..n2 {
                lines.push((t2, frame(rng, [0xa1, 0x30, a as u8 + 1], k, 2, a)));
                t2 += 130_000;
            }
        }
    }
    lines.sort();
    let home = *rng.pick(&["F1", "F4", "F5"]);
    let events_a = vec![KEvent { at_us: 50_000, ev: key("F3") }, KEvent { at_us: look, ev: key("F3") }, KEvent { at_us: leave, ev: key(home) }, KEvent { at_us: t2 + 200_000, ev: key("F3") }, KEvent { at_us: t2 + 700_000, ev: key("F4") }];
    let events_b = vec![
        KEvent { at_us: 200_000, ev: key("F1") },
        KEvent { at_us: 500_000, ev: key("c:+") },
        KEvent { at_us: 700_000, ev: key("F1") },
        KEvent { at_us: 900_000, ev: key("Enter") },
        KEvent { at_us: 1_200_000, ev: key("F3") },
        KEvent { at_us: 1_500_000, ev: key("F4") },
        KEvent { at_us: 1_800_000, ev: key("F1") },
        KEvent { at_us: 2_000_000, ev: key("c:q") },
    ];
    K18 { cols: 120, rows: 40, filter_time, locations: vec![("RX".to_string(), 0.0, 0.0)], flags: vec![], lines, events_a, events_b, bulk: 0, many: false, rx, gpsd_cli_offset: None, gpsd_move: None, rust_log: None, tz: None, airports: false, bulk_orbit: false }
}

pub fn generate(rng: &mut Rng, fault_free: bool) -> K18 {
    if !fault_free && rng.chance(0.06) {
        return generate_two_lives(rng);
    }
    let rx = if fault_free { (35.0, -80.0) } else { *rng.pick(&RECEIVERS) };
    let cols = *rng.pick(&[110u16, 120, 140, 160, 200]);
    let rows = *rng.pick(&[40u16, 44, 50, 60]);
    let filter_time = if fault_free { 1000 } else { *rng.pick(&[2u64, 3, 1000, 1000]) };
    // markers: the receiver itself and controlled offsets d / 2d on each axis
    // latitude offsets are chosen so that they span the same number of canvas rows at every
    // receiver latitude (Mercator stretches a degree of latitude by 1/cos(lat)); the layout below
    // (labels on distinct rows) was designed at 35 degrees
    let lat_f = rx.0.to_radians().cos() / 35.0f64.to_radians().cos();
    let mut locations = vec![("RX".to_string(), 0.0, 0.0)];
    let d_lat = D_LAT * lat_f;
    let all = [("N1", d_lat, 0.0), ("N2", 2.0 * d_lat, 0.0), ("S1", -d_lat, 0.0), ("S2", -2.0 * d_lat, 0.0), ("E1", 0.0, D_LON), ("E2", 0.0, 2.0 * D_LON), ("W1", 0.0, -D_LON), ("W2", 0.0, -2.0 * D_LON)];
    for (n, a, b) in all {
        if rng.chance(0.8) {
            locations.push((n.to_string(), a, b));
        }
    }
    let mut flags = vec![];
    for f in ["--disable-lat-long", "--disable-callsign", "--disable-heading", "--disable-track"] {
        if rng.chance(0.25) {
            flags.push(f.to_string());
        }
    }
    // aircraft in all four quadrants at distinct latitude offsets (labels on distinct rows)
    let slots: [(f64, f64); 6] = [(0.25, 0.3), (-0.25, -0.3), (0.75, -0.9), (-0.75, 0.9), (1.3, 0.6), (-1.3, -0.6)];
    // "many" mode: more aircraft than fit on one page of the Airplanes tab (scrolling table); the
    // map is then too crowded for label geometry and only data is judged
    let many = !fault_free && rng.chance(0.03);
    // "excursion" runs: aircraft leave the maximum range (or jump) while still being heard, so
    // their fixes are rejected and the position columns must go blank again; garbage pairings can
    // land anywhere, so label geometry is not judged in these runs (data is)
    let excursion = !fault_free && !many && rng.chance(0.15);
    let nac = if many { 0 } else { 1 + rng.usize_below(6) };
    let deep = simcore::deep() && rng.chance(0.33);
    let dur_a: u64 = 2_000_000 + rng.below(if deep { 20_000_000 } else { 6_000_000 });
    let mut lines: Vec<(u64, String)> = vec![];
    let mut order: Vec<usize> = (0..6).collect();
    for i in (1..6).rev() {
        order.swap(i, rng.usize_below(i + 1));
    }
    for (a, &slot) in order.iter().take(nac).enumerate() {
        let addr = [0xa0 + (slot as u8), 0x20, a as u8 + 1];
        let (dlat, dlon) = (slots[slot].0 * lat_f, slots[slot].1);
        let from = rng.below(dur_a / 2);
        let to = if rng.chance(0.4) { from + 400_000 + rng.below(dur_a / 2) } else { dur_a };
        let mut t = from;
        let mut ctr = 0u32;
        let mut odd = rng.coin();
        let cs = format!("AC{}{}", (b'A' + slot as u8) as char, rng.below(90) + 10);
        // every flight level the altitude field can carry, up to its ceiling of 50 175 ft
        let high = if !fault_free && rng.chance(0.2) { *rng.pick(&[1i32, 2, 3, 4]) } else { 0 };
        if !fault_free && rng.chance(0.35) {
            // the first thing heard from some aircraft is a message type the tracker only counts
            // (status, target state, operational status, surface position, no-position)
            let tc = *rng.pick(&[0u8, 5, 8, 28, 29, 31, 31]);
            let payload = if tc == 31 { rng.next_u64() & 0x0000_33FF_FFFF_FFFF & !(0b11u64 << 46) & !(0b11u64 << 42) & 0x0007_FFFF_FFFF_FFFF } else { rng.next_u64() };
            lines.push((t, wire::hex(&wire::df17(5, addr, wire::me_raw(tc, payload)))));
            t += 150_000 + rng.below(250_000);
        }
        while t < to && lines.len() < if deep { 400 } else { 120 } {
            let me = match ctr % 4 {
                0 => wire::me_identification(4, 0, &cs),
                1 | 2 => {
                    odd = !odd;
                    // in excursion runs the aircraft is beyond the 500 km range limit in the
                    // middle third of its life
                    let away = excursion && ctr >= 8 && (ctr / 8) % 3 == 1;
                    let far = if away { if rx.0 > 0.0 { -6.5 } else { 6.5 } } else { 0.0 };
                    let (yz, xz) = wire::cpr_encode(rx.0 + dlat + far, rx.1 + dlon, odd);
                    wire::me_airborne_position(11, 0, 0, wire::ac12_q(alt_of_slot(slot as i32, high)), false, odd, yz, xz)
                }
                // (a helicopter in the hover now and then: exactly 0 kt on both axes)
                _ if rng.chance(0.1) => wire::me_velocity(1, 0, wire::sub_ground_speed(rng.below(2) as u8, 1, rng.below(2) as u8, 1), 0, 0, 1 + rng.below(3) as u16, 0, 3),
                _ => wire::me_velocity(1, 0, wire::sub_ground_speed(rng.below(2) as u8, 50 + rng.below(400) as u16, rng.below(2) as u8, 50 + rng.below(400) as u16), 0, 0, 1 + rng.below(60) as u16, 0, 3),
            };
            ctr += 1;
            lines.push((t, wire::hex(&wire::df17(5, addr, me))));
            t += 150_000 + rng.below(250_000);
        }
        // some aircraft fall silent for longer than the expiry time and come back: they are
        // "newly added" a second time (statistics), with a fresh record (table)
        if filter_time <= 3 && to < dur_a && rng.chance(0.6) {
            let mut t = to + (filter_time + 1) * 1_000_000 + rng.below(500_000);
            for k in 0..3 + rng.below(4) {
                let me = match k % 3 {
                    0 => {
                        odd = !odd;
                        let (yz, xz) = wire::cpr_encode(rx.0 + dlat, rx.1 + dlon, odd);
                        wire::me_airborne_position(11, 0, 0, wire::ac12_q(alt_of_slot(slot as i32, high)), false, odd, yz, xz)
                    }
                    1 => wire::me_identification(4, 0, &cs),
                    _ => {
                        odd = !odd;
                        let (yz, xz) = wire::cpr_encode(rx.0 + dlat, rx.1 + dlon, odd);
                        wire::me_airborne_position(11, 0, 0, wire::ac12_q(alt_of_slot(slot as i32, high)), false, odd, yz, xz)
                    }
                };
                lines.push((t, wire::hex(&wire::df17(5, addr, me))));
                t += 150_000 + rng.below(250_000);
            }
        }
    }
    // (VERIF_C18_ORBIT=1 forces the mode for every faulted run: debugging aid)
    let bulk_orbit = !fault_free && (rng.chance(0.004) || std::env::var("VERIF_C18_ORBIT").is_ok());
    let bulk = if bulk_orbit { 4_300 + rng.usize_below(400) } else if !fault_free && rng.chance(0.006) { 10_000 + rng.usize_below(400) } else { 0 };
    let filter_time = if bulk > 0 || many { 1_000_000 } else { filter_time };
    if bulk > 0 {
        // the backlog needs one main-loop iteration (>= 10 ms) per line
        let shift = bulk as u64 * 10_500 + 2_000_000;
        for l in lines.iter_mut() {
            l.0 += shift;
        }
    }
    if many {
        let n = rows as usize - 9 + rng.usize_below(12);
        let mut t = 100_000u64;
        for a in 0..n {
            let addr = [0x48, (a >> 8) as u8, a as u8];
            let lat = rx.0 + 0.05 + 0.01 * a as f64;
            for k in 0..3 {
                let me = match k {
                    0 => wire::me_identification(4, 0, &format!("TST{a:03}")),
                    _ => {
                        let (yz, xz) = wire::cpr_encode(lat, rx.1 + 0.1, k == 2);
                        wire::me_airborne_position(11, 0, 0, wire::ac12_q(10_000 + 25 * a as i32), false, k == 2, yz, xz)
                    }
                };
                lines.push((t, wire::hex(&wire::df17(5, addr, me))));
                t += 125_000;
            }
        }
    }
    lines.sort();
    // at least 120 ms between segments: one line per read, one read per iteration
    for i in 1..lines.len() {
        if lines[i].0 < lines[i - 1].0 + 120_000 {
            lines[i].0 = lines[i - 1].0 + 120_000;
        }
    }
    // clustered arrivals: with no expiry in play, groups of 2..6 lines (often the first frames of
    // several aircraft) arrive in ONE segment; frames are judged once the client has caught up
    let clustered = !fault_free && bulk == 0 && !many && filter_time >= 1000 && rng.chance(0.35);
    if clustered {
        let mut i = 0;
        while i < lines.len() {
            let g = 1 + rng.usize_below(6);
            let t0 = lines[i].0;
            for l in lines.iter_mut().skip(i).take(g) {
                l.0 = t0;
            }
            i += g;
        }
    }
    let end_a = lines.last().map(|l| l.0).unwrap_or(0).max(dur_a) + 300_000;
    let ev_gap_scale = if bulk > 0 { 12 } else { 1 };
    // phase A events
    let controls_in_a = !fault_free && rng.chance(0.3);
    // operator style: hopping between tabs all the time, or dwelling on one tab (Map or Stats)
    // for seconds and only glancing at the Airplanes tab now and then
    let dwell: Option<&str> = if !fault_free && rng.chance(0.4) { Some(*rng.pick(&["F1", "F4", "F5"])) } else { None };
    let mut events_a = vec![];
    let mut t = 30_000 + rng.below(200_000);
    let mut away = false;
    while t < end_a {
        let ev = match dwell {
            Some(home) => {
                if away {
                    away = false;
                    key(home)
                } else if rng.chance(0.25) {
                    away = true;
                    key("F3")
                } else {
                    key(home)
                }
            }
            None => match rng.below(10) {
                0..=2 => key("F3"),
                3..=4 => key("F4"),
                5..=7 => key("F1"),
                8 => key(*rng.pick(&["c:l", "c:n", "c:t", "c:h"])),
                _ => key(*rng.pick(&["F5", "F2", "Tab"])),
            },
        };
        // some runs also use view controls while traffic is still flowing: the data shown must
        // not depend on them (map geometry is then only judged again after the reset)
        let ev = if controls_in_a && rng.chance(0.4) {
            match rng.below(8) {
                0 => key("Left"),
                1 => key("Right"),
                2 => key("Up"),
                3 => key("Down"),
                4 => key("c:-"),
                5 => key("c:+"),
                6 => KEv::Mouse { kind: "DragLeft".into(), col: 20 + rng.below(60) as u16, row: 8 + rng.below(20) as u16 },
                _ => KEv::Mouse { kind: "ScrollUp".into(), col: 40, row: 20 },
            }
        } else {
            ev
        };
        events_a.push(KEvent { at_us: t, ev });
        t += if dwell.is_some() && away { 150_000 + rng.below(300_000) } else { (200_000 + rng.below(900_000)) * ev_gap_scale * if dwell.is_some() { 3 } else { 1 } };
    }
    // phase B: view controls then reset, then look at the data again
    let mut events_b = vec![];
    let mut t = 200_000;
    let push = |events_b: &mut Vec<KEvent>, t: &mut u64, ev: KEv, gap: u64| {
        events_b.push(KEvent { at_us: *t, ev });
        *t += gap;
    };
    push(&mut events_b, &mut t, key("F1"), 250_000);
    if many {
        // walk the selection down past the end of the first page, one key per draw
        push(&mut events_b, &mut t, key("F3"), 150_000);
        for _ in 0..rows as usize - 9 + 6 {
            push(&mut events_b, &mut t, key("Down"), 80_000);
        }
        for _ in 0..rng.below(12) {
            push(&mut events_b, &mut t, key("Up"), 80_000);
        }
        push(&mut events_b, &mut t, key("F1"), 150_000);
    }
    let nctl = if fault_free { 2 } else { 1 + rng.usize_below(if deep { 40 } else { 12 }) };
    if !fault_free && rng.chance(0.4) {
        // centre the map on an aircraft from the Airplanes tab
        push(&mut events_b, &mut t, key("F3"), 150_000);
        for _ in 0..1 + rng.below(4) {
            push(&mut events_b, &mut t, key("Down"), 90_000);
        }
        push(&mut events_b, &mut t, key("Enter"), 200_000);
        push(&mut events_b, &mut t, key("F1"), 150_000);
        if rng.chance(0.7) {
            // held zoom key while centred on the aircraft: it must stay in the middle of the map
            let k = if rng.chance(0.75) { "c:+" } else { "c:-" };
            for _ in 0..3 + rng.below(26) {
                push(&mut events_b, &mut t, key(k), 40_000);
            }
            t += 150_000;
        }
    }
    for _ in 0..nctl {
        let ev = match rng.below(12) {
            0 => key("c:-"),
            1 => key("c:+"),
            2 => key("Up"),
            3 => key("Down"),
            4 => key("Left"),
            5 => key("Right"),
            6 => KEv::Mouse { kind: "ScrollUp".into(), col: 50, row: 20 },
            7 => KEv::Mouse { kind: "ScrollDown".into(), col: 50, row: 20 },
            8 | 9 => KEv::Mouse { kind: "DragLeft".into(), col: 20 + rng.below(60) as u16, row: 8 + rng.below(20) as u16 },
            10 => KEv::Mouse { kind: "UpLeft".into(), col: 30, row: 12 },
            _ => key("c:+"),
        };
        push(&mut events_b, &mut t, ev, 60_000 + rng.below(150_000));
    }
    push(&mut events_b, &mut t, key("F1"), 200_000);
    push(&mut events_b, &mut t, key("Enter"), 300_000); // reset on the Map tab
    push(&mut events_b, &mut t, key("F3"), 250_000);
    push(&mut events_b, &mut t, key("F4"), 250_000);
    push(&mut events_b, &mut t, key("F1"), 250_000);
    push(&mut events_b, &mut t, key("c:q"), 0);
    let gpsd_cli_offset = if !fault_free && rng.chance(0.12) { Some(*rng.pick(&[(0.5, 0.0), (0.0, 1.0), (-0.7, 0.8), (1.0, -1.0), (0.0, -0.3), (0.01, 0.01)])) } else { None };
    let rust_log = if !fault_free && rng.chance(0.3) { Some((*rng.pick(&["trace", "debug", "info", "rsadsb_common=trace", "radar=trace,adsb_deku=debug", "warn", ""])).to_string()) } else { None };
    let tz = if !fault_free && rng.chance(0.4) { Some((*rng.pick(&["EST5EDT", "PST8PDT", "<-03>3", "<+0530>-5:30", "JST-9", "America/New_York", "<-11>11", "<+13>-13", "UTC0"])).to_string()) } else { None };
    let airports = !fault_free && !(many || excursion) && rng.chance(0.25);
    let gpsd_move = if gpsd_cli_offset.is_some() && rng.chance(0.4) && lines.windows(2).all(|w| w[0].0 != w[1].0) { Some(*rng.pick(&[(0.1, 0.2), (-0.2, 0.15), (0.05, -0.3), (-0.25, -0.1), (0.0, 0.3), (0.25, 0.0)])) } else { None };
    K18 { cols, rows, filter_time, locations, flags, lines, events_a, events_b, bulk, many: many || excursion, rx, gpsd_cli_offset, gpsd_move, rust_log, tz, airports, bulk_orbit }
}

const GPSD_LEAD_US: u64 = 300_000;

fn end_a(sc: &K18) -> u64 {
    let a = sc.lines.last().map(|l| l.0).unwrap_or(0).max(sc.bulk as u64 * 10_500 + if sc.bulk > 0 { 2_000_000 } else { 0 });
    let b = sc.events_a.iter().map(|e| e.at_us).max().unwrap_or(0);
    a.max(b) + 400_000
}

pub fn compile(sc: &K18) -> KChild {
    let mut segments: Vec<KSegment> = vec![];
    if sc.bulk > 0 {
        let addr = [0xa7, 0x20, 0x77];
        let mut text = String::new();
        let mut nseg = 0u64;
        for i in 0..sc.bulk {
            let me = match i {
                0 => wire::me_identification(4, 0, "BULK"),
                1 | 2 => {
                    let (yz, xz) = wire::cpr_encode(sc.rx.0 + 0.1, sc.rx.1 + 0.1, i == 2);
                    wire::me_airborne_position(11, 0, 0, wire::ac12_q(12_000), false, i == 2, yz, xz)
                }
                _ if sc.bulk_orbit => {
                    let th = 0.004 * i as f64;
                    let f = sc.rx.0.to_radians().cos() / 35.0f64.to_radians().cos();
                    // the circle lies in the far west of the view, on rows between those of the
                    // markers and of the other aircraft: its label (which runs a degree to the
                    // east) never touches another label
                    let (yz, xz) = wire::cpr_encode(sc.rx.0 + (0.375 + 0.07 * th.sin()) * f, sc.rx.1 - 1.6 + 0.1 * th.cos(), i % 2 == 0);
                    wire::me_airborne_position(11, 0, 0, wire::ac12_q(12_000), false, i % 2 == 0, yz, xz)
                }
                _ => wire::me_velocity(1, 0, wire::sub_ground_speed(0, 1 + (i % 900) as u16, 0, 1 + (i * 7 % 900) as u16), 0, 0, 1 + (i % 300) as u16, 0, 3),
            };
            text.push_str(&format!("*{};\n", wire::hex(&wire::df17(5, addr, me))));
            if (i + 1) % 250 == 0 || i + 1 == sc.bulk {
                segments.push(KSegment { at_us: 50_000 + nseg * 1_000, hex: wire::hex(text.as_bytes()), repeat: 0 });
                text.clear();
                nseg += 1;
            }
        }
    }
    // lines with the same arrival time travel in one segment
    let mut i = 0;
    while i < sc.lines.len() {
        let t = sc.lines[i].0;
        let mut text = String::new();
        while i < sc.lines.len() && sc.lines[i].0 == t {
            text.push_str(&format!("*{};\n", sc.lines[i].1));
            i += 1;
        }
        segments.push(KSegment { at_us: t, hex: wire::hex(text.as_bytes()), repeat: 0 });
    }
    let connects = vec![KConnect {
        outcome: KOutcome::Accept,
        segments,
        close_at_us: None,
        rst: false,
        eintr_reads: vec![],
    }];
    let mut events = sc.events_a.clone();
    events.sort_by_key(|e| e.at_us);
    let base = end_a(sc);
    for e in &sc.events_b {
        events.push(KEvent { at_us: base + e.at_us, ev: e.ev.clone() });
    }
    if !events.iter().any(|e| matches!(&e.ev, KEv::Key { code, .. } if code == "c:q")) {
        let t = events.last().map(|e| e.at_us).unwrap_or(base) + 200_000;
        events.push(KEvent { at_us: t, ev: key("c:q") });
    }
    let mut connects = connects;
    let mut gpsd = None;
    if sc.gpsd_cli_offset.is_some() {
        // the daemon's greeting and the first fix are there when radar's gpsd thread connects (end
        // of the first main-loop iteration); traffic and the operator start 300 ms later
        for s in connects[0].segments.iter_mut() {
            s.at_us += GPSD_LEAD_US;
        }
        for e in events.iter_mut() {
            e.at_us += GPSD_LEAD_US;
        }
        let l = |at_us: u64, v: Value, fix: Option<(f64, f64)>| KGpsdLine { at_us, text: v.to_string(), fix };
        let tpv = |la: f64, lo: f64| json!({"class": "TPV", "device": "/dev/ttyACM0", "mode": 3, "time": "2023-11-14T22:13:20.000Z", "lat": la, "lon": lo, "alt": 120.5, "speed": 0.1, "track": 12.0});
        let mut lines = vec![
            l(0, json!({"class": "VERSION", "release": "3.25", "rev": "3.25", "proto_major": 3, "proto_minor": 15}), None),
            l(0, json!({"class": "DEVICES", "devices": [{"class": "DEVICE", "path": "/dev/ttyACM0", "driver": "u-blox", "activated": "2023-11-14T22:13:19.000Z"}]}), None),
            l(0, json!({"class": "WATCH", "enable": true, "json": true, "nmea": false, "raw": 0, "scaled": false, "timing": false, "split24": false, "pps": false}), None),
            // no fix yet, then a sky view, then the fix
            l(0, json!({"class": "TPV", "device": "/dev/ttyACM0", "mode": 1}), None),
            l(0, json!({"class": "SKY", "device": "/dev/ttyACM0", "hdop": 1.1, "satellites": []}), None),
            l(0, tpv(sc.rx.0, sc.rx.1), Some(sc.rx)),
        ];
        let t_end = events.last().map(|e| e.at_us).unwrap_or(0);
        let t_move = GPSD_LEAD_US + end_a(sc) / 2;
        let mut t = 1_000_000;
        while t < t_end && lines.len() < 40 {
            let at = match sc.gpsd_move {
                Some((a, b)) if t >= t_move => (sc.rx.0 + a, sc.rx.1 + b),
                _ => sc.rx,
            };
            lines.push(l(t, tpv(at.0, at.1), Some(at)));
            t += 1_000_000;
        }
        gpsd = Some(KGpsd { refuse: false, lines });
    }
    // never coalesce: one segment (= one line) per read, so the processing time of every line is
    // the time of its RD entry in the seam log
    KChild { winsz_ops: vec![], outage: None, tz: sc.tz.clone(), file_ops: vec![], rust_log: sc.rust_log.clone(), gpsd, ev_delay_us: vec![], connects, events, proc_delay_us: vec![], coalesce: vec![false], step_budget: 40_000 + 4 * sc.bulk as u64 }
}

struct RefSnap {
    /// where the receiver was when this frame was drawn
    rx: (f64, f64),
    table: Vec<Row>,
    len: usize,
    total_added: u32,
    most: u32,
    /// key -> (callsign, lat, lon, has_details)
    ac: BTreeMap<String, (Option<String>, f64, f64)>,
}

fn vt_time(us: u64) -> SystemTime {
    SystemTime::UNIX_EPOCH + Duration::from_secs(1_700_000_000) + Duration::from_micros(us)
}

fn block_rect(s: &Screen, title: &str) -> Option<(usize, usize, usize, usize)> {
    // returns inner rect (x, y, w, h) of the bordered block whose title starts with `title`
    let (tx, ty) = s.find(&format!("┌{title}"))?;
    let row: Vec<char> = s.rows[ty].iter().map(|c| c.ch).collect();
    let x1 = (tx + 1..row.len()).find(|&x| row[x] == '┐')?;
    let y1 = (ty + 1..s.rows.len()).find(|&y| s.rows[y].get(tx).map(|c| c.ch) == Some('└'))?;
    if x1 <= tx + 1 || y1 <= ty + 1 {
        return None;
    }
    Some((tx + 1, ty + 1, x1 - tx - 1, y1 - ty - 1))
}

/// position of a label that stands alone (preceded by a non-alphanumeric cell) inside the rect
fn find_label(s: &Screen, rect: (usize, usize, usize, usize), text: &str) -> Vec<(usize, usize)> {
    let n: Vec<char> = text.chars().collect();
    let mut v = vec![];
    for y in rect.1..rect.1 + rect.3 {
        let Some(r) = s.rows.get(y) else { continue };
        for x in rect.0..(rect.0 + rect.2).min(r.len()) {
            if x + n.len() > r.len() {
                break;
            }
            if r[x..x + n.len()].iter().map(|c| c.ch).eq(n.iter().copied()) {
                let before_ok = x == rect.0 || !r[x - 1].ch.is_ascii_alphanumeric();
                let after = r.get(x + n.len()).map(|c| c.ch).unwrap_or(' ');
                let after_ok = !after.is_ascii_alphanumeric();
                if before_ok && after_ok {
                    v.push((x, y));
                }
            }
        }
    }
    v
}

/// (current tab as drawn, ICAO of the row marked ">> " if any)
fn tab_and_selection(s: &Screen) -> (&'static str, Option<String>) {
    if let Some((hx, hy)) = s.find("ICAO   Call sign") {
        let mut sel = None;
        for y in hy + 2..s.rows.len() {
            let r: Vec<char> = s.rows[y].iter().map(|c| c.ch).collect();
            if hx >= 3 && r.len() > hx + 6 && r.iter().skip(hx - 3).take(3).collect::<String>() == ">> " {
                sel = Some(r.iter().skip(hx).take(6).collect::<String>().trim().to_string());
            }
        }
        return ("airplanes", sel);
    }
    if block_rect(s, "Map").is_some() {
        return ("map", None);
    }
    if s.find("┌Coverage").is_some() {
        return ("coverage", None);
    }
    ("other", None)
}

fn parse_addr(s: &str) -> ICAO {
    let b = wire::unhex(s);
    if b.len() == 3 {
        ICAO([b[0], b[1], b[2]])
    } else {
        ICAO([0, 0, 0])
    }
}

fn map_text(s: &Screen) -> Option<String> {
    let r = block_rect(s, "Map")?;
    let mut t = String::new();
    for y in r.1..r.1 + r.3 {
        let row: String = s.rows.get(y).map(|row| row.iter().skip(r.0).take(r.2).map(|c| c.ch).collect()).unwrap_or_default();
        t.push_str(&row);
        t.push('\n');
    }
    // the outer title line carries the (custom) centre
    t.push_str(&s.row_text(1));
    Some(t)
}

#[allow(clippy::too_many_lines)]
pub fn execute(sc: &K18) -> Outcome {
    let _clock = crate::vclock::Guard;
    let mut out = Outcome::default();
    let child = compile(sc);
    let cli = sc.gpsd_cli_offset.map(|(a, b)| (sc.rx.0 + a, sc.rx.1 + b)).unwrap_or(sc.rx);
    let mut args: Vec<String> = vec![format!("--lat={}", cli.0), format!("--long={}", cli.1), "--log-folder=logs".into(), format!("--filter-time={}", sc.filter_time)];
    if sc.gpsd_cli_offset.is_some() {
        args.push("--gpsd".into());
    }
    if sc.airports {
        // two airports in the far south-east / south-west of the default view, clear of every
        // constructed marker and aircraft
        let f = sc.rx.0.to_radians().cos() / 35.0f64.to_radians().cos();
        let path = super::pty::workdir().join("airports.csv");
        let text = format!(
            "\"icao\",\"iata\",\"name\",\"city\",\"subd\",\"country\",\"elevation\",\"lat\",\"lon\",\"tz\"\n\"KSE1\",\"SE1\",\"South East\",\"Town\",\"State\",\"US\",10.0,{:.4},{:.4},\"America/New_York\"\n\"KSW2\",\"SW2\",\"South West\",\"Town\",\"State\",\"US\",20.0,{:.4},{:.4},\"America/Chicago\"\n",
            sc.rx.0 - 1.25 * f, sc.rx.1 + 1.5, sc.rx.0 - 1.4 * f, sc.rx.1 - 1.6
        );
        std::fs::write(&path, text).unwrap_or_else(|e| simcore::harness_error(&format!("cannot write {}: {e}", path.display())));
        args.push("--airports".into());
        args.push("airports.csv".into());
        out.fault("airports_on_the_map");
    }
    args.extend(sc.flags.iter().cloned());
    if !sc.locations.is_empty() {
        args.push("--locations".into());
        for (n, a, b) in &sc.locations {
            args.push(format!("({n},{},{})", sc.rx.0 + a, sc.rx.1 + b));
        }
    }
    let run = run_child(&Spec { exe: &exe("radar"), args, child: &child, tty: Some((sc.cols, sc.rows)), wall_limit: Duration::from_secs(30) });
    let mut vt = Vt::new();
    vt.keep_from = sc.bulk as u64;
    vt.feed(&run.out);
    let log = parse_log(&run.seam_log);
    let p = Parsed { run, vt, log };
    let mut h = Fnv::new();
    h.str(&p.run.seam_log);
    h.bytes(&p.run.out);
    out.trace_hash = h.finish();
    out.steps = p.log.len() as u64;
    out.virtual_ns = p.log.last().map(LogEv::time_us).unwrap_or(0) * 1000;
    if std::env::var("VERIF_K_DUMP").is_ok() {
        println!("--- seam log\n{}", p.run.seam_log);
        println!("--- stderr\n{}", p.run.stderr);
        let want: Vec<u64> = std::env::var("VERIF_K_DUMP").unwrap().split(',').filter_map(|x| x.parse().ok()).collect();
        for f in &p.vt.frames {
            if want.contains(&f.k) {
                println!("--- frame {}\n{}", f.k, f.text().join("\n"));
            }
        }
    }
    end_of_run_checks("C18", &p, &mut out, true);
    if out.violation.is_some() {
        // a crash / hang / bad exit is C17's subject; here the run simply cannot be judged further,
        // but it is still a premature end of a C17-safe script
        return out;
    }

    // ---- reference timeline from the seam log
    let stream: Vec<u8> = child.connects[0].segments.iter().flat_map(|s| wire::unhex(&s.hex)).collect();
    let mut consumed = 0usize;
    let mut tr = Airplanes::new();
    let mut total_added = 0u32;
    let mut most = 0u32;
    let mut snaps: BTreeMap<u64, RefSnap> = BTreeMap::new();
    let mut toggles: BTreeMap<&str, bool> = BTreeMap::new();
    toggles.insert("l", sc.flags.iter().any(|f| f == "--disable-lat-long"));
    toggles.insert("n", sc.flags.iter().any(|f| f == "--disable-callsign"));
    toggles.insert("i", false);
    let mut toggle_at_frame: BTreeMap<u64, (bool, bool, bool)> = BTreeMap::new();
    let mut ev_count_at_frame: BTreeMap<u64, usize> = BTreeMap::new();
    let mut evs: Vec<String> = vec![];
    let mut expired_any = false;
    let shown: BTreeMap<u64, (&'static str, Option<String>)> = p.vt.frames.iter().map(|f| (f.k, tab_and_selection(f))).collect();
    let mut last_frame_k: Option<u64> = None;
    // aircraft the map is currently centred on (Enter on its selected row), and the net zoom since
    let mut centred: Option<(String, i32)> = None;
    let mut centred_at_frame: BTreeMap<u64, Option<(String, i32)>> = BTreeMap::new();
    let mut client_consumed = 0usize;
    let mut connected = false;
    let mut backlog_at_frame: BTreeMap<u64, bool> = BTreeMap::new();
    let mut delivered_lines = 0usize;
    let mut dirty_a = false;
    let mut dirty_at_frame: BTreeMap<u64, bool> = BTreeMap::new();
    // receiver position: the command line's, or what the gpsd daemon reported last (a fix handed
    // over at an iteration boundary is in force from the next iteration on)
    let mut cur_rx = sc.rx;
    for l in &p.log {
        match l {
            LogEv::Gpsd { fix: Some(f), .. } => {
                if (f.0 - cur_rx.0).abs() > 1e-9 || (f.1 - cur_rx.1).abs() > 1e-9 {
                    if connected && client_consumed < delivered_lines {
                        // the receiver moved while the client may still hold delivered lines it has
                        // not processed (several lines in one read): whether those are filed with
                        // the old or the new position is the client's business, the reference
                        // cannot know — nothing is judged in such a run
                        out.inconclusive = true;
                    }
                    cur_rx = *f;
                }
            }
            LogEv::Rd { t, kind, total, segs, .. } if kind == "data" => {
                if *segs > 1 {
                    out.inconclusive = true;
                }
                crate::vclock::set(*t * 1000);
                rsadsb_common::verif_clock::set(vt_time(*t));
                delivered_lines = stream[..(*total).min(stream.len())].iter().filter(|&&b| b == b'\n').count();
                while let Some(nl) = stream[consumed..(*total).min(stream.len())].iter().position(|&b| b == b'\n') {
                    let line = &stream[consumed..consumed + nl];
                    consumed += nl + 1;
                    if let Some(bytes) = super::c16::well_formed_frame(line) {
                        if let Ok(f) = Frame::from_bytes(&bytes) {
                            // "newly added" is read off the tracked set itself (a key that was not
                            // there before the frame), not off the tracker's own `Added` answer
                            let before: Vec<[u8; 3]> = tr.keys().map(|k| k.0).collect();
                            let _ = tr.action(f, cur_rx, 500.0);
                            total_added += tr.keys().filter(|k| !before.contains(&k.0)).count() as u32;
                            most = most.max(tr.keys().count() as u32);
                        }
                    }
                }
            }
            LogEv::Connect { what, .. } => {
                if what.starts_with("accept") {
                    connected = true;
                }
            }
            LogEv::Ev { json, .. } => {
                if evs.len() < sc.events_a.len() && ["\"Up\"", "\"Down\"", "\"Left\"", "\"Right\"", "\"c:-\"", "\"c:+\"", "\"Enter\"", "Drag", "Scroll"].iter().any(|k| json.contains(k)) {
                    dirty_a = true;
                }
                // view state that matters for the centred-aircraft clause
                let (tab_now, sel_now) = last_frame_k.and_then(|k| shown.get(&k).cloned()).unwrap_or(("other", None));
                if json.contains("\"code\":\"Enter\"") {
                    centred = match (tab_now, sel_now) {
                        ("airplanes", Some(icao)) if tr.get(parse_addr(&icao)).map(|st| st.coords.position.is_some() && st.coords.kilo_distance.is_some() && st.coords.altitudes.iter().all(|r| r.map(|r| r.alt.is_some()).unwrap_or(false))).unwrap_or(false) => Some((icao, 0)),
                        ("airplanes", _) => centred,
                        _ => None, // Enter on Map / Coverage resets the view
                    };
                } else if ["\"Up\"", "\"Down\"", "\"Left\"", "\"Right\"", "Drag"].iter().any(|k| json.contains(k)) && tab_now != "airplanes" {
                    centred = None;
                } else if json.contains("\"c:+\"") || json.contains("ScrollUp") {
                    if tab_now == "map" || tab_now == "coverage" || json.contains("Scroll") {
                        centred = centred.map(|(i, z)| (i, z + 1));
                    }
                } else if json.contains("\"c:-\"") || json.contains("ScrollDown") {
                    if tab_now == "map" || tab_now == "coverage" || json.contains("Scroll") {
                        centred = centred.map(|(i, z)| (i, z - 1));
                    }
                }
                for k in ["l", "n", "i"] {
                    if json.contains(&format!("\"code\":\"c:{k}\"")) {
                        let v = toggles.get_mut(k).unwrap();
                        *v = !*v;
                    }
                }
                evs.push(json.clone());
            }
            LogEv::Frame { t, k, .. } => {
                crate::vclock::set(*t * 1000);
                rsadsb_common::verif_clock::set(vt_time(*t));
                let before = tr.len();
                tr.prune(sc.filter_time);
                if tr.len() < before {
                    expired_any = true;
                }
                let mut ac = BTreeMap::new();
                for key in tr.keys() {
                    // drawable = the record has a position, a distance and both stored reports
                    // carry an altitude (with only one the statement leaves the label open)
                    let st = tr.get(*key).unwrap();
                    let c = &st.coords;
                    let both_alts = c.altitudes.iter().all(|r| r.map(|r| r.alt.is_some()).unwrap_or(false));
                    if let (Some(p), Some(_), true) = (c.position, c.kilo_distance, both_alts) {
                        ac.insert(format!("{:02x}{:02x}{:02x}", key.0[0], key.0[1], key.0[2]), (st.callsign.clone(), p.latitude, p.longitude));
                    }
                }
                snaps.insert(*k, RefSnap { rx: cur_rx, table: table_of(&tr), len: tr.keys().count(), total_added, most, ac });
                toggle_at_frame.insert(*k, (toggles["l"], toggles["n"], toggles["i"]));
                ev_count_at_frame.insert(*k, evs.len());
                last_frame_k = Some(*k);
                centred_at_frame.insert(*k, centred.clone());
                // a client that takes one line per main-loop iteration (the slowest sensible one)
                // has consumed this many lines by the end of this iteration
                if connected && client_consumed < delivered_lines {
                    client_consumed += 1;
                }
                // a one-line-per-iteration client has consumed everything delivered by now?
                backlog_at_frame.insert(*k, client_consumed < delivered_lines);
                dirty_at_frame.insert(*k, dirty_a);
            }
            _ => {}
        }
    }
    if out.inconclusive {
        return out;
    }
    if total_added as usize > {
        let mut seen = std::collections::BTreeSet::new();
        for (_, hex) in &sc.lines {
            seen.insert(hex.get(2..8).unwrap_or("").to_string());
        }
        seen.len() + usize::from(sc.bulk > 0)
    } {
        out.probe("aircraft_re_added_after_expiry");
    }
    if sc.many && sc.lines.len() < 150 && sc.bulk == 0 {
        out.fault("out_of_range_excursion");
    }
    if expired_any {
        out.probe("aircraft_expired_from_table");
        out.fault("expiry_during_display");
    }
    let _ = ICAO([0, 0, 0]);

    // phase boundaries in terms of delivered events
    let n_a = sc.events_a.len();
    let first_ctl_b = 1; // events_b[0] is F1; everything after it until the reset may change the view
    let reset_idx_b = sc.events_b.iter().rposition(|e| matches!(&e.ev, KEv::Key { code, .. } if code == "Enter"));
    let mut map_before: Option<(u64, String, Vec<Row>)> = None;
    let mut map_after: Option<(u64, String, Vec<Row>)> = None;
    let mut table_after_seen = false;

    // vacuity guards: a run in which no frame could be parsed at all, or in which the Airplanes /
    // Stats / Map tabs were visited but never recognised, is a harness error, not a silent pass
    if p.vt.frames.len() >= 40 && p.vt.frames.iter().all(|f| tab_bar_count(f).is_none()) {
        simcore::harness_error("C18: no drawn frame shows a tab bar of the form 'Map .. Coverage .. Airplanes(N)': the screen parser does not recognise this UI");
    }
    // mobile receiver: everything is judged against the position the gpsd daemon reported, from
    // the first frame drawn after the fix was handed to radar's gpsd thread
    let mut first_judged_k = 0u64;
    if sc.gpsd_cli_offset.is_some() {
        let mut last_k = 0u64;
        let mut fix_after: Option<u64> = None;
        for l in &p.log {
            match l {
                LogEv::Frame { k, .. } => last_k = *k,
                LogEv::Gpsd { fix: Some(f), .. } if fix_after.is_none() => {
                    if (f.0 - sc.rx.0).abs() < 1e-9 && (f.1 - sc.rx.1).abs() < 1e-9 {
                        fix_after = Some(last_k);
                    }
                }
                _ => {}
            }
        }
        match fix_after {
            Some(k) => {
                first_judged_k = k + 1;
                out.fault("receiver_position_from_gpsd");
            }
            None => {
                // the daemon's fix never reached radar (no gpsd thread): nothing can be judged
                out.probe("gpsd_fix_never_delivered");
                return out;
            }
        }
        // the reference tracker is fed with the reported position throughout: a line processed
        // before the fix would make the run unjudgeable (the script leaves 300 ms for the fix)
        let fix_pos = p.log.iter().position(|l| matches!(l, LogEv::Gpsd { fix: Some(_), .. })).unwrap_or(0);
        if p.log[..fix_pos].iter().any(|l| matches!(l, LogEv::Rd { kind, .. } if kind == "data")) {
            out.inconclusive = true;
            return out;
        }
    }
    let mut judged = (0u32, 0u32, 0u32);
    for s in &p.vt.frames {
        if s.k < first_judged_k {
            continue;
        }
        let Some(r) = snaps.get(&s.k) else { continue };
        if backlog_at_frame[&s.k] {
            // the client may still be working through lines that arrived together (one line per
            // main-loop iteration): judged once it must have caught up
            out.probe("frame_skipped_while_catching_up");
            continue;
        }
        if sc.bulk > 0 {
            out.probe(if sc.bulk_orbit { "judged_with_a_track_of_over_4000_points_on_the_map" } else { "judged_after_backlog_of_10000_lines" });
        }
        let nev = ev_count_at_frame[&s.k];
        let in_phase_a = nev <= n_a;
        let evb = nev.saturating_sub(n_a); // number of phase-B events delivered before this frame
        let dirty = dirty_at_frame[&s.k];
        let view_is_default = (in_phase_a && !dirty) || (!in_phase_a && !dirty && evb <= first_ctl_b) || (!in_phase_a && reset_idx_b.map(|ri| evb > ri).unwrap_or(false));
        // every frame: the tab bar counts the tracked aircraft
        match tab_bar_count(s) {
            Some(n) if n == r.len => {}
            Some(n) => {
                out.violate("C18:tab-title-count-differs", format!("frame {} (t={}us): tab bar shows Airplanes({n}), the tracker holds {} aircraft", s.k, s.vt_us, r.len));
                return out;
            }
            None => continue,
        }
        if let Some((rows, _raw, selected)) = parse_airplanes_tab(s) {
            judged.0 += 1;
            out.probe("airplanes_tab_judged");
            if selected {
                out.probe("row_selected_shifted_columns");
            }
            if rows.iter().any(|x| !x.lat.is_empty()) {
                out.probe("details_filled");
            }
            if rows.iter().any(|x| x.lat.is_empty()) {
                out.probe("details_blank");
            }
            if rows.len() < r.table.len() {
                out.probe("table_longer_than_one_page");
            }
            if !window_match(&rows, &r.table, selected) {
                let sig = if in_phase_a { "C18:airplanes-rows-differ-from-tracker" } else { "C18:view-controls-changed-the-data" };
                out.violate(sig, format!("frame {} (t={}us): Airplanes tab rows differ from the tracker's data\nshown:\n{}\ntracker:\n{}", s.k, s.vt_us, dump(&rows), dump(&r.table)));
                return out;
            }
            if s.find(&format!("┌Airplanes({})", r.len)).is_none() {
                out.violate("C18:block-title-count-differs", format!("frame {}: the Airplanes block title does not show the tracked count {}:\n{}", s.k, r.len, s.row_text(4)));
                return out;
            }
            if !in_phase_a && reset_idx_b.map(|ri| evb > ri).unwrap_or(false) {
                table_after_seen = true;
            }
        } else if s.find("┌Stats").is_some() {
            judged.1 += 1;
            out.probe("stats_tab_judged");
            // "<label> <DateTime | All Time | None> <value>"; the column widths are solved by
            // ratatui, so the row is parsed by content, not by offsets
            let val = |label: &str| -> Option<String> {
                let (x, y) = s.find(label)?;
                let row: String = s.row_text(y);
                let rest: String = row.chars().skip(x + label.chars().count()).collect();
                let rest = rest.trim_end().trim_end_matches('│').trim();
                let v = if let Some(r) = rest.strip_prefix("All Time") {
                    r.trim()
                } else if let Some(r) = rest.strip_prefix("None") {
                    r.trim()
                } else {
                    // "MM/DD HH:MM:SS"
                    rest.get(14..).unwrap_or("").trim()
                };
                Some(v.to_string())
            };
            let total = val("Total Airplanes");
            let mostv = val("Most Airplanes");
            if total.as_deref() != Some(&r.total_added.to_string()) {
                out.violate("C18:stats-total-airplanes-differs", format!("frame {} (t={}us): Stats shows Total Airplanes {:?}, aircraft were newly added {} times", s.k, s.vt_us, total, r.total_added));
                return out;
            }
            let want_most = if r.most == 0 { String::new() } else { r.most.to_string() };
            if mostv.as_deref() != Some(want_most.as_str()) {
                out.violate("C18:stats-most-airplanes-differs", format!("frame {} (t={}us): Stats shows Most Airplanes {:?}, the largest simultaneous count so far is {}", s.k, s.vt_us, mostv, r.most));
                return out;
            }
        } else if let Some(rect) = block_rect(s, "Map") {
            judged.2 += 1;
            if view_is_default && !sc.many {
                check_map(sc, s, rect, r, toggle_at_frame[&s.k], &mut out);
                if out.violation.is_some() {
                    return out;
                }
            } else if let (Some((icao, zoom)), false) = (&centred_at_frame[&s.k], sc.many) {
                // centred on an aircraft and not zoomed out since: it is in the middle of the map,
                // whatever the zoom level
                let (dis_latlon, dis_callsign, dis_icao) = toggle_at_frame[&s.k];
                if let (Some((cs, lat, lon)), false, true) = (r.ac.get(icao), dis_icao, *zoom >= 0) {
                    let label = if dis_callsign { icao.clone() } else { cs.clone().unwrap_or_else(|| icao.clone()) };
                    let _ = (dis_latlon, lat, lon);
                    let found = find_label(s, rect, &label);
                    let (ix, iy, iw, ih) = rect;
                    let (cx0, cx1, cy1) = (ix + (iw - 1) / 2, ix + iw / 2, iy + ih / 2);
                    out.probe("centred_aircraft_judged");
                    if *zoom >= 8 {
                        out.probe("centred_aircraft_judged_after_8_zoom_ins");
                    }
                    match found.first() {
                        None => {
                            out.violate("C18:centred-aircraft-not-on-the-map", format!("frame {} (t={}us): the map was centred on {icao} (Enter on its selected row, {zoom} net zoom-in steps since) but its label {label:?} is not drawn\n{}", s.k, s.vt_us, s.text().join("\n")));
                            return out;
                        }
                        Some((x, y)) => {
                            if *x + 1 < cx0 || *x > cx1 + 1 || *y > cy1 || *y + 4 < cy1 {
                                out.violate("C18:centred-aircraft-not-at-the-centre", format!("frame {} (t={}us): the map was centred on {icao} ({zoom} net zoom-in steps since) but its label is drawn at cell ({x},{y}); the canvas centre is column {cx0}..{cx1}, row {cy1}", s.k, s.vt_us));
                                return out;
                            }
                        }
                    }
                }
            }
            if !in_phase_a {
                if evb == first_ctl_b && !dirty {
                    // last Map frame before the first view control
                    map_before = map_text(s).map(|t| (s.k, t, r.table.clone()));
                } else if let Some(ri) = reset_idx_b {
                    if evb == ri + 1 {
                        map_after = map_text(s).map(|t| (s.k, t, r.table.clone()));
                    }
                }
            }
        }
    }
    // phase B always ends with F3, F4, F1, each followed by at least 250 ms of frames
    if sc.events_b.len() >= 7 && p.vt.frames.len() >= 40 && (judged.0 == 0 || judged.1 == 0 || judged.2 == 0) && sc.bulk == 0 {
        simcore::harness_error(&format!("C18: the operator visited the Airplanes, Stats and Map tabs but the parsers recognised (airplanes, stats, map) = {judged:?} frames: the screen format is not the one this check understands"));
    }
    if let (Some((ka, a, ta)), Some((kb, b, tb))) = (&map_before, &map_after) {
        // only comparable when the data is the same (no aircraft expired in between)
        if ta == tb {
            out.probe("map_compared_before_controls_and_after_reset");
        }
        if ta == tb && a != b {
            let diff = a.lines().zip(b.lines()).enumerate().find(|(_, (x, y))| x != y).map(|(i, (x, y))| format!("first differing row {i}:\n before: {x}\n after : {y}")).unwrap_or_default();
            out.violate("C18:reset-does-not-restore-the-view", format!("Map frame {ka} (before the view controls) and frame {kb} (after reset) differ although the data did not change\n{diff}"));
            return out;
        }
    }
    if table_after_seen {
        out.probe("table_unchanged_after_view_controls");
    }
    if sc.rust_log.is_some() {
        out.fault("diagnostics_switched_on");
    }
    if sc.tz.is_some() {
        out.fault("local_time_zone_not_utc");
    }
    if sc.events_b.len() > 8 {
        out.fault("view_control_sequence");
    }
    if dirty_a {
        out.fault("view_controls_during_traffic");
    }
    out
}

fn check_map(sc: &K18, s: &Screen, rect: (usize, usize, usize, usize), r: &RefSnap, tog: (bool, bool, bool), out: &mut Outcome) {
    out.probe("map_tab_judged");
    let (ix, iy, iw, ih) = rect;
    let cx = [ix + (iw - 1) / 2, ix + iw / 2];
    let cy = [iy + (ih - 1) / 2, iy + ih / 2];
    let mut pos: BTreeMap<String, (usize, usize, f64, f64)> = BTreeMap::new();
    let moved = (r.rx.0 - sc.rx.0).abs() > 1e-9 || (r.rx.1 - sc.rx.1).abs() > 1e-9;
    if moved {
        out.probe("map_judged_after_the_receiver_moved");
    }
    for (name, dlat, dlon) in &sc.locations {
        let found = find_label(s, rect, name);
        // markers stay where they are; the receiver (the centre) may have moved away from `sc.rx`
        let (dlat, dlon) = (&(sc.rx.0 + dlat - r.rx.0), &(sc.rx.1 + dlon - r.rx.1));
        if found.len() == 1 {
            pos.insert(name.clone(), (found[0].0, found[0].1, *dlat, *dlon));
        } else if found.is_empty() && moved {
            // may have left the canvas
        } else if found.is_empty() {
            out.violate("C18:map-location-marker-missing", format!("frame {} (t={}us): location marker {name} (offset {dlat},{dlon} deg from the receiver) is not on the map", s.k, s.vt_us));
            return;
        }
    }
    // aircraft labels
    let (dis_latlon, dis_callsign, dis_icao) = tog;
    for (k, (cs, lat, lon)) in &r.ac {
        let name = if dis_callsign { k.clone() } else { cs.clone().unwrap_or_else(|| k.clone()) };
        // the label is the aircraft's name, optionally followed by its coordinates in brackets
        // (the number of decimals is not part of the property; the values are)
        let label = name.clone();
        let found = find_label(s, rect, &label);
        if dis_icao {
            if !found.is_empty() {
                out.violate("C18:map-label-shown-although-disabled", format!("frame {}: label {label:?} drawn although labels are switched off", s.k));
                return;
            }
            continue;
        }
        if found.is_empty() {
            out.violate("C18:map-aircraft-label-missing-or-wrong", format!("frame {} (t={}us): no label {label:?} on the map for tracked aircraft {k} at ({lat:.3},{lon:.3})\n{}", s.k, s.vt_us, s.text().join("\n")));
            return;
        }
        if !dis_latlon {
            // "<name> (<lat>, <lon>)" — compare the numbers when the whole bracket is visible
            let row: String = s.row_text(found[0].1).chars().skip(found[0].0 + label.chars().count()).take(40).collect();
            if let (Some(a), Some(b)) = (row.find('('), row.find(')')) {
                if a < b && row[..a].trim().is_empty() {
                    let inner: Vec<&str> = row[a + 1..b].split(',').map(str::trim).collect();
                    if inner.len() == 2 && !(num_shown_matches(inner[0], Some(*lat)) && num_shown_matches(inner[1], Some(*lon))) {
                        out.violate("C18:map-aircraft-label-missing-or-wrong", format!("frame {} (t={}us): the label of {k} shows ({}, {}), the tracker has ({lat}, {lon})", s.k, s.vt_us, inner[0], inner[1]));
                        return;
                    }
                    out.probe("label_coordinates_judged");
                }
            }
        }
        out.probe("aircraft_label_found");
        // drawn, but in a colour nobody can read on a dark terminal?
        let fg = s.rows.get(found[0].1).and_then(|r| r.get(found[0].0)).map(|c| c.fg).unwrap_or(0);
        if matches!(fg, 30 | 1000 | 1016 | 1232 | 0x100_0000) {
            out.violate("C18:map-aircraft-label-invisible", format!("frame {} (t={}us): the label {label:?} of {k} (altitude-independent data) is written in black (colour code {fg}) and cannot be seen", s.k, s.vt_us));
            return;
        }
        pos.insert(format!("ac:{k}"), (found[0].0, found[0].1, lat - r.rx.0, lon - r.rx.1));
    }
    // the receiver is at the centre
    if let (Some((x, y, _, _)), false) = (pos.get("RX"), moved) {
        if !cx.contains(x) || !cy.contains(y) {
            out.violate("C18:map-receiver-not-at-centre", format!("frame {} (t={}us): the marker at the receiver's coordinates is drawn at cell ({x},{y}), the canvas centre is ({:?},{:?})", s.k, s.vt_us, cx, cy));
            return;
        }
        out.probe("receiver_marker_at_centre");
    }
    // after a move the marker at the receiver's *old* place is no longer at the centre: it lies
    // where its offset from the new position puts it, at the scale the other markers of the very
    // same frame show (columns per degree from any east/west pair, rows per degree from any
    // north/south pair; the spacing of fixed markers does not depend on where the receiver is)
    if moved {
        if let Some(&(x, y, dlat, dlon)) = pos.get("RX") {
            let pair = |names: &[&str]| -> Option<((usize, usize, f64, f64), (usize, usize, f64, f64))> {
                let v: Vec<_> = names.iter().filter_map(|n| pos.get(*n).copied()).collect();
                if v.len() >= 2 {
                    Some((v[0], v[v.len() - 1]))
                } else {
                    None
                }
            };
            let mid_x = (cx[0] + cx[1]) as f64 / 2.0;
            let mid_y = (cy[0] + cy[1]) as f64 / 2.0;
            if let Some((a, b)) = pair(&["W2", "W1", "E1", "E2"]) {
                let cols_per_deg = (b.0 as f64 - a.0 as f64) / (b.3 - a.3);
                let want = mid_x + dlon * cols_per_deg;
                out.probe("old_receiver_marker_judged_after_the_move");
                if cols_per_deg > 0.0 && (x as f64 - want).abs() > 2.1 {
                    out.violate("C18:map-receiver-not-at-centre", format!("frame {} (t={}us): the receiver moved to ({}, {}); the marker at its old place ({dlon:.3} deg of longitude away) is drawn in column {x}, at {cols_per_deg:.1} columns per degree (from the other markers of this frame) it belongs in column {want:.1} if the receiver is at the centre (column {mid_x})", s.k, s.vt_us, r.rx.0, r.rx.1));
                    return;
                }
            }
            if let Some((a, b)) = pair(&["N2", "N1", "S1", "S2"]) {
                // a is the northern one (smaller row), b the southern one
                let rows_per_deg = (b.1 as f64 - a.1 as f64) / (a.2 - b.2);
                let want = mid_y - dlat * rows_per_deg;
                if rows_per_deg > 0.0 && (y as f64 - want).abs() > 2.1 {
                    out.violate("C18:map-receiver-not-at-centre", format!("frame {} (t={}us): the receiver moved to ({}, {}); the marker at its old place ({dlat:.3} deg of latitude away) is drawn in row {y}, at {rows_per_deg:.1} rows per degree (from the other markers of this frame) it belongs in row {want:.1} if the receiver is at the centre (row {mid_y})", s.k, s.vt_us, r.rx.0, r.rx.1));
                    return;
                }
            }
        }
    }
    // directions are judged against where the receiver's own marker is drawn (the centre cell)
    let centre = pos.get("RX").filter(|_| !moved).map(|p| (p.0 as i64, p.1 as i64)).unwrap_or((cx[0] as i64, cy[0] as i64));
    // offsets are more than one cell by construction; after the receiver moved they are whatever
    // is left, so only offsets of at least three rows / columns of the coarsest canvas are judged
    let (min_lat, min_lon) = if moved { (0.45, 0.3) } else { (0.15, 0.2) };
    for (name, (x, y, dlat, dlon)) in &pos {
        let (x, y) = (*x as i64, *y as i64);
        // quadrant relative to the centre (offsets are more than one cell by construction)
        if *dlat > min_lat && y >= centre.1 {
            out.violate("C18:map-north-is-not-up", format!("frame {}: {name} lies {dlat} deg north of the receiver but is drawn in row {y}, the centre row is {}", s.k, centre.1));
            return;
        }
        if *dlat < -min_lat && y <= centre.1 {
            out.violate("C18:map-south-is-not-down", format!("frame {}: {name} lies {} deg south of the receiver but is drawn in row {y}, the centre row is {}", s.k, -dlat, centre.1));
            return;
        }
        if *dlon > min_lon && x <= centre.0 {
            out.violate("C18:map-east-is-not-right", format!("frame {}: {name} lies {dlon} deg east of the receiver but is drawn in column {x}, the centre column is {}", s.k, centre.0));
            return;
        }
        if *dlon < -min_lon && x >= centre.0 {
            out.violate("C18:map-west-is-not-left", format!("frame {}: {name} lies {} deg west of the receiver but is drawn in column {x}, the centre column is {}", s.k, -dlon, centre.0));
            return;
        }
        if name.starts_with("ac:") {
            if *dlat > 0.0 && *dlon > 0.0 {
                out.probe("aircraft_in_ne_quadrant");
            } else if *dlat > 0.0 {
                out.probe("aircraft_in_nw_quadrant");
            } else if *dlon > 0.0 {
                out.probe("aircraft_in_se_quadrant");
            } else {
                out.probe("aircraft_in_sw_quadrant");
            }
        }
    }
    // proportional offsets: 2d lies at twice the cell offset of d (+-1 cell)
    for (a, b, axis) in [("E1", "E2", 0), ("W1", "W2", 0), ("N1", "N2", 1), ("S1", "S2", 1)] {
        if let (Some(pa), Some(pb), Some(c)) = (pos.get(a), pos.get(b), pos.get("RX")) {
            let (da, db) = if axis == 0 { (pa.0 as i64 - c.0 as i64, pb.0 as i64 - c.0 as i64) } else { (pa.1 as i64 - c.1 as i64, pb.1 as i64 - c.1 as i64) };
            out.probe("proportionality_judged");
            if da == 0 || (db - 2 * da).abs() > 2 || da.signum() != db.signum() {
                out.violate("C18:map-offsets-not-proportional", format!("frame {}: {a} is drawn {da} cells from the receiver marker and {b} (twice as far) {db} cells", s.k));
                return;
            }
        }
    }
    // mirror symmetry: d east and d west (north / south) are equally far from the centre (+-1)
    for (a, b, axis) in [("E1", "W1", 0), ("E2", "W2", 0)] {
        if let (Some(pa), Some(pb), Some(c)) = (pos.get(a), pos.get(b), pos.get("RX")) {
            let _ = axis;
            let da = pa.0 as i64 - c.0 as i64;
            let db = c.0 as i64 - pb.0 as i64;
            if (da - db).abs() > 1 {
                out.violate("C18:map-offsets-not-proportional", format!("frame {}: {a} is drawn {da} cells east and {b} {db} cells west of the receiver marker for the same offset", s.k));
                return;
            }
        }
    }
}

fn dump(rows: &[Row]) -> String {
    rows.iter().map(|r| format!("  {} {:9} {:>8} {:>9} {:>6} {:>9} {:>4}", r.icao, r.callsign, r.lat, r.lon, r.alt, r.dist, r.msgs)).collect::<Vec<_>>().join("\n")
}

pub fn shrink(sc: &K18) -> Vec<K18> {
    let mut c = vec![];
    if sc.rust_log.is_some() {
        c.push(K18 { rust_log: None, ..sc.clone() });
    }
    if sc.tz.is_some() {
        c.push(K18 { tz: None, ..sc.clone() });
    }
    if sc.airports {
        c.push(K18 { airports: false, ..sc.clone() });
    }
    if sc.gpsd_move.is_some() {
        c.push(K18 { gpsd_move: None, ..sc.clone() });
    }
    if sc.gpsd_cli_offset.is_some() {
        c.push(K18 { gpsd_cli_offset: None, gpsd_move: None, ..sc.clone() });
    }
    for l in drop_chunks(&sc.lines) {
        c.push(K18 { lines: l, ..sc.clone() });
    }
    for e in drop_chunks(&sc.events_a) {
        c.push(K18 { events_a: e, ..sc.clone() });
    }
    // phase B: keep the structural events (first F1, the last Enter, the trailing look-at-data keys)
    let n = sc.events_b.len();
    if n > 7 {
        for i in 1..n - 6 {
            let mut e = sc.events_b.clone();
            e.remove(i);
            c.push(K18 { events_b: e, ..sc.clone() });
        }
    }
    for e in drop_chunks(&sc.locations) {
        c.push(K18 { locations: e, ..sc.clone() });
    }
    for i in 0..sc.flags.len() {
        let mut f = sc.flags.clone();
        f.remove(i);
        c.push(K18 { flags: f, ..sc.clone() });
    }
    if (sc.cols, sc.rows) != (120, 40) {
        c.push(K18 { cols: 120, rows: 40, ..sc.clone() });
    }
    if sc.bulk > 0 {
        c.push(K18 { bulk: 0, bulk_orbit: false, ..sc.clone() });
        if sc.bulk > 100 {
            c.push(K18 { bulk: sc.bulk - sc.bulk / 8, ..sc.clone() });
            c.push(K18 { bulk: sc.bulk - 1, ..sc.clone() });
        }
    }
    if sc.rx != (35.0, -80.0) {
        // moving the receiver moves everything with it: re-encode is not possible here, so only
        // try it when there is no traffic left
        if sc.lines.is_empty() {
            c.push(K18 { rx: (35.0, -80.0), ..sc.clone() });
        }
    }
    if sc.filter_time != 1000 {
        c.push(K18 { filter_time: 1000, ..sc.clone() });
    }
    c
}

pub fn describe(sc: &K18) -> Value {
    json!({
        "receiver": sc.rx, "terminal": format!("{}x{}", sc.cols, sc.rows), "filter_time": sc.filter_time, "flags": sc.flags,
        "locations": sc.locations, "traffic_lines": sc.lines.len(), "backlog_lines_of_one_aircraft": sc.bulk,
        "phase_a_events": sc.events_a.iter().take(10).map(|e| format!("t={}us {:?}", e.at_us, e.ev)).collect::<Vec<_>>(),
        "phase_b_events": sc.events_b.iter().map(|e| format!("+{}us {:?}", e.at_us, e.ev)).collect::<Vec<_>>(),
    })
}
