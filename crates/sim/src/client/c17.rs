//! C17 — no operator action or terminal size crashes radar; quit restores the terminal.

use std::time::Duration;

use serde::{Deserialize, Serialize};
use serde_json::{json, Value};
use simcore::kproto::*;
use simcore::{drop_chunks, Fnv, Outcome, Rng};

use super::c16::{end_of_run_checks, Parsed};
use super::pty::{run_child, Spec};
use super::vt::Vt;
use super::{exe, panic_location, parse_log, LogEv};

#[derive(Serialize, Deserialize, Clone, Debug, PartialEq)]
pub struct K17 {
    /// options besides --lat/--long/--log-folder
    pub args: Vec<String>,
    pub cols: u16,
    pub rows: u16,
    /// refused connects before the server accepts
    pub refused_first: u32,
    /// benign traffic: one well-formed line per segment, (arrival us after accept, frame hex)
    pub lines: Vec<(u64, String)>,
    pub events: Vec<KEvent>,
    pub quit_at_us: u64,
    pub quit_ctrl_c: bool,
    pub proc_delay_us: Vec<u64>,
    /// with --retry-tcp: the server drops the connection at this time and re-accepts (after some
    /// refused attempts); the operator keeps acting meanwhile
    #[serde(default)]
    pub reconnect_at_us: Option<u64>,
    /// sub-batch that only looks at the exit status of an invalid command line
    pub invalid_cli: Option<Vec<String>>,
    /// receiver position (--lat / --long)
    #[serde(default = "default_rx")]
    pub rx: (f64, f64),
    /// coverage sweep: one aircraft reports this many positions in distinct 0.01 degree cells
    /// (state that accumulates slowly over a long session), delivered as a backlog
    #[serde(default)]
    pub sweep: usize,
    /// compass sweep: one positioned aircraft sends this many velocity reports whose heading walks
    /// round the compass in 0.02 degree steps while the Map tab is shown
    #[serde(default)]
    pub compass: usize,
    /// time the client spends on each operator event, cycled
    #[serde(default)]
    pub ev_delay_us: Vec<u64>,
    /// `--gpsd`: (refused?, fixes (time, lat, lon) the daemon reports); the receiver drives around,
    /// now and then to the ends of the earth
    #[serde(default)]
    pub gpsd: Option<(bool, Vec<(u64, f64, f64)>)>,
    /// `--airports <file>`: (kind of file the option names, `--airports-tz-filter`)
    #[serde(default)]
    pub airports: Option<(String, Option<String>)>,
    /// `RUST_LOG` of the client (None = unset)
    #[serde(default)]
    pub rust_log: Option<String>,
    /// errno of the connects that fail (cycled; 0 or empty = refused)
    #[serde(default)]
    pub connect_errnos: Vec<i32>,
    /// the (usable) airports file is deleted / garbled / cut short while the server is away
    /// (at the first connect attempt after the drop)
    #[serde(default)]
    pub airports_spoiled: Option<String>,
    /// `TZ` of the client (None = UTC)
    #[serde(default)]
    pub tz: Option<String>,
    /// what answers on the gpsd port is not gpsd: this line is sent instead of the greeting
    #[serde(default)]
    pub gpsd_banner: Option<String>,
    /// window size changes that take effect just before the client's n-th size query
    #[serde(default)]
    pub winsz_ops: Vec<(u64, u16, u16)>,
}

/// kinds of `--airports` arguments; the first three are files radar can use
pub const AIRPORT_KINDS: [&str; 9] = ["valid", "valid", "empty", "header_only", "missing", "directory", "malformed_number", "short_row", "not_utf8"];

fn airports_is_usable(kind: &str) -> bool {
    matches!(kind, "valid" | "empty" | "header_only")
}

/// writes the file the scenario names into the child's working directory; returns the argument
pub fn prepare_airports(kind: &str, rx: (f64, f64)) -> String {
    let dir = super::pty::workdir();
    let path = dir.join("airports.csv");
    let _ = std::fs::remove_file(&path);
    let header = "\"icao\",\"iata\",\"name\",\"city\",\"subd\",\"country\",\"elevation\",\"lat\",\"lon\",\"tz\"\n";
    let row = |i: usize, lat: &str, lon: &str, tz: &str| format!("\"K{i:03}\",\"A{i:02}\",\"Field {i}\",\"Town\",\"State\",\"US\",{}.0,{lat},{lon},\"{tz}\"\n", 100 * i);
    let near = |i: usize| (format!("{:.4}", rx.0 + 0.1 * i as f64 - 0.2), format!("{:.4}", rx.1 - 0.15 * i as f64 + 0.2));
    let body: Vec<u8> = match kind {
        "valid" => {
            let mut t = header.to_string();
            for (i, tz) in ["America/New_York", "America/Chicago", "Europe/Amsterdam", "America/New_York"].iter().enumerate() {
                let (la, lo) = near(i);
                t.push_str(&row(i, &la, &lo, tz));
            }
            t.into_bytes()
        }
        "empty" => vec![],
        "header_only" => header.as_bytes().to_vec(),
        "malformed_number" => format!("{header}{}{}", row(1, "35.1", "-80.1", "America/New_York"), row(2, "north", "-80.2", "America/New_York")).into_bytes(),
        "short_row" => format!("{header}{}\"K002\",\"A02\",\"Field\"\n", row(1, "35.1", "-80.1", "America/New_York")).into_bytes(),
        "not_utf8" => {
            let mut v = header.as_bytes().to_vec();
            v.extend_from_slice(b"\"K001\",\"A01\",\"Fi\xff\xfeld\",\"Town\",\"State\",\"US\",10.0,35.1,-80.1,\"America/New_York\"\n");
            v
        }
        _ => vec![],
    };
    match kind {
        "missing" => "no-such-airports.csv".to_string(),
        // the log folder: opening succeeds, reading fails (EISDIR)
        "directory" => "logs".to_string(),
        _ => {
            std::fs::write(&path, body).unwrap_or_else(|e| simcore::harness_error(&format!("cannot write {}: {e}", path.display())));
            "airports.csv".to_string()
        }
    }
}

fn default_rx() -> (f64, f64) {
    (35.0, -80.0)
}

pub const SIZES: [(u16, u16); 12] = [(1, 1), (2, 2), (5, 3), (10, 4), (12, 6), (30, 8), (49, 4), (80, 24), (80, 24), (120, 40), (120, 40), (300, 100)];

fn key(code: &str) -> KEv {
    KEv::Key { code: code.into(), ctrl: false, shift: false, alt: false }
}

fn gen_event(rng: &mut Rng, cols: u16, rows: u16) -> KEv {
    match rng.below(100) {
        0..=24 => key(*rng.pick(&["F1", "F2", "F3", "F3", "F4", "F5", "Tab"])),
        25..=49 => key(*rng.pick(&["Up", "Down", "Down", "Down", "Enter", "Enter", "Left", "Right"])),
        50..=56 => key(*rng.pick(&["c:l", "c:i", "c:h", "c:t", "c:n", "c:-", "c:+", "c:c", "c:x", "c:Q", "Esc", "Backspace", "PageDown", "PageUp", "Home", "End", "BackTab", "Delete", "Insert", "c: ", "F6", "F12", "c:0", "c:\u{e9}", "Null"])),
        57..=59 => {
            // letters of other scripts; a third of them share their low byte with a command key
            let low = *rng.pick(&[b'q', b'l', b'i', b'h', b't', b'n', b'-', b'+', b'c', b'Q']) as u32;
            let c = loop {
                let hi = 1 + rng.below(0xff) as u32;
                let cp = if rng.chance(0.35) { (hi << 8) | low } else { 0x100 + rng.below(0xff00) as u32 };
                if let Some(c) = char::from_u32(cp) {
                    break c;
                }
            };
            key(&format!("c:{c}"))
        }
        60..=64 => {
            // modifiers on non-quit keys (plain q and exact ctrl+c are the only quit requests)
            let code = *rng.pick(&["Up", "Down", "Enter", "F3", "c:l", "c:+", "Tab"]);
            KEv::Key { code: code.into(), ctrl: rng.coin(), shift: rng.coin(), alt: rng.coin() }
        }
        65..=86 => {
            let kind = *rng.pick(&["DownLeft", "DownLeft", "DownLeft", "UpLeft", "DragLeft", "DragLeft", "DragLeft", "DownRight", "UpRight", "DragRight", "DownMiddle", "ScrollUp", "ScrollDown", "Moved", "ScrollLeft", "ScrollRight"]);
            let (col, row) = match rng.below(6) {
                0 => (*rng.pick(&[3u16, 5, 8, 12, 20, 30, 36, 40, 43, 48]), 1 + rng.below(3) as u16), // tab hit-boxes
                1 => (1 + rng.below(10) as u16, rng.below(rows.max(1) as u64 + 2) as u16),           // touchscreen buttons
                2 => (rng.below(cols.max(1) as u64) as u16, 0),
                3 => (cols + rng.below(50) as u16, rows + rng.below(50) as u16), // beyond the screen
                4 => (*rng.pick(&[0u16, u16::MAX, 1000]), *rng.pick(&[0u16, u16::MAX, 1000])),
                _ => (rng.below(cols.max(1) as u64) as u16, rng.below(rows.max(1) as u64) as u16),
            };
            KEv::Mouse { kind: kind.into(), col, row }
        }
        87..=93 => {
            let (w, h) = if rng.chance(0.3) { (1 + rng.below(200) as u16, 1 + rng.below(70) as u16) } else { *rng.pick(&SIZES) };
            KEv::Resize { w, h }
        }
        94..=95 => KEv::FocusGained,
        96..=97 => KEv::FocusLost,
        _ => KEv::Paste { text: (*rng.pick(&["", "q", "hello\n", "\u{1b}[A"])).to_string() },
    }
}

pub const INVALID_CLI: [&[&str]; 20] = [
    // values that are only wrong because of what the file system holds: a log folder below a
    // regular file (the scenario file in the child's working directory), or where nothing can be
    // created. Refusing them is an ordinary error (exit 1 or 2 with a message), not a panic.
    &["--lat=35.0", "--long=-80.0", "--log-folder=scenario.json/logs"],
    &["--lat=35.0", "--long=-80.0", "--log-folder=/proc/no-such-dir/logs"],
    &["--lat=35.0", "--long=-80.0", "--port=abc"],
    &["--lat=35.0", "--long=-80.0", "--port=70000"],
    &["--lat=abc", "--long=-80.0"],
    &["--lat=35.0", "--long="],
    &["--long=-80.0"],
    &["--lat=35.0", "--long=-80.0", "--host=999.1.1.1"],
    &["--lat=35.0", "--long=-80.0", "--host=localhost"],
    &["--lat=35.0", "--long=-80.0", "--filter-time=-1"],
    &["--lat=35.0", "--long=-80.0", "--filter-time=abc"],
    &["--lat=35.0", "--long=-80.0", "--scale=abc"],
    &["--lat=35.0", "--long=-80.0", "--max-range=abc"],
    &["--lat=35.0", "--long=-80.0", "--locations", "abc"],
    &["--lat=35.0", "--long=-80.0", "--locations", "(a,1.0)"],
    &["--lat=35.0", "--long=-80.0", "--locations", "(a,x,y)"],
    &["--lat=35.0", "--long=-80.0", "--locations", ""],
    &["--lat=35.0", "--long=-80.0", "--locations", "(a,1.0,2.0)", "b"],
    &["--lat=35.0", "--long=-80.0", "--bogus"],
    &["--lat=35.0", "--long=-80.0", "--touchscreen=maybe"],
];

pub fn generate(rng: &mut Rng, fault_free: bool) -> K17 {
    if !fault_free && rng.chance(0.08) {
        let a = *rng.pick(&INVALID_CLI);
        return K17 { args: vec![], cols: 80, rows: 24, refused_first: 0, lines: vec![], events: vec![], quit_at_us: 100_000, quit_ctrl_c: false, proc_delay_us: vec![], reconnect_at_us: None, invalid_cli: Some(a.iter().map(|s| s.to_string()).collect()), rx: (35.0, -80.0), sweep: 0, compass: 0, ev_delay_us: vec![], gpsd: None, airports: None, rust_log: None, connect_errnos: vec![], airports_spoiled: None, tz: None, gpsd_banner: None, winsz_ops: vec![] };
    }
    let (cols, rows) = if fault_free {
        *rng.pick(&[(80u16, 24u16), (120, 40)])
    } else if rng.chance(0.3) {
        // any size, not only the named classes (a crash at one exact width or height)
        let wmax = if rng.coin() { 60 } else { 300 };
        let hmax = if rng.coin() { 20 } else { 100 };
        (1 + rng.below(wmax) as u16, 1 + rng.below(hmax) as u16)
    } else {
        *rng.pick(&SIZES)
    };
    #[allow(non_snake_case)]
    let RX: (f64, f64) = if fault_free { (35.0, -80.0) } else { *rng.pick(&[(35.0, -80.0), (35.0, -80.0), (-35.0, 150.0), (0.0, 0.0), (89.5, 10.0), (-60.0, -179.9), (52.0, 4.0)]) };
    let mut args: Vec<String> = vec![];
    for f in ["--touchscreen", "--disable-lat-long", "--disable-callsign", "--disable-icao", "--disable-heading", "--disable-track", "--limit-parsing", "--retry-tcp"] {
        if rng.chance(if f == "--touchscreen" { 0.4 } else { 0.2 }) {
            args.push(f.into());
        }
    }
    if rng.chance(0.3) {
        args.push(format!("--max-range={}", *rng.pick(&["50", "500", "1000000", "0.5", "1e12"])));
    }
    if rng.chance(0.3) {
        args.push(format!("--scale={}", *rng.pick(&["0.01", ".12", "1", "100", "0.0001", "1e6"])));
    }
    // a session left alone: nothing from the operator and nothing new from the server for one to
    // five minutes of simulated time (every timer the client may own fires in that time); most of
    // these keep their aircraft (no expiry), two of them parked on the same spot, and the operator
    // looks at a tab now and then: whatever accumulates per main-loop pass has time to do so
    let long_quiet = !fault_free && rng.chance(0.014);
    let filter = if long_quiet && rng.chance(0.7) { *rng.pick(&[1_000_000u64, u64::MAX]) } else { *rng.pick(&[0u64, 1, 1, 2, 2, 3, 120, u64::MAX]) };
    args.push(format!("--filter-time={filter}"));
    if rng.chance(0.4) {
        args.push("--locations".into());
        for i in 0..1 + rng.below(3) {
            let name = if rng.chance(0.4) { (*rng.pick(&["Troms\u{f8}", "Besan\u{e7}on", "\u{141}\u{f3}d\u{17a}", "\u{6771}\u{4eac}", "Z\u{fc}rich", "K\u{f8}benhavn Lufthavn", "\u{e9}", "a b", ""])).to_string() } else { format!("L{i}") };
            if rng.chance(0.15) {
                // legal but extreme coordinates (poles, antimeridian, the receiver itself)
                let la = *rng.pick(&["90", "-90", "0", "89.999", "-0.0"]);
                let lo = *rng.pick(&["180", "-180", "0", "179.999", "360"]);
                args.push(format!("({name},{la},{lo})"));
            } else if rng.chance(0.1) {
                args.push(format!("({name},{},{})", RX.0, RX.1));
            } else {
                args.push(format!("({name},{:.2},{:.2})", (RX.0 + rng.f64_range(-0.5, 0.5)).clamp(-90.0, 90.0), RX.1 + rng.f64_range(-0.5, 0.5)));
            }
        }
    }
    let deep = simcore::deep() && rng.chance(0.33);
    let duration_us: u64 = 500_000 + rng.below(if fault_free { 4_000_000 } else if deep { 25_000_000 } else { 9_000_000 });
    // traffic
    let nac = if long_quiet { 2 + rng.usize_below(4) } else { rng.usize_below(7) };
    let mut lines: Vec<(u64, String)> = vec![];
    for a in 0..nac {
        let addr = [0xa0, 0x10, a as u8 + 1];
        let from = rng.below(duration_us / 2);
        let to = from + rng.below(duration_us - from).max(300_000);
        let mut t = from;
        let mut odd = false;
        let mut ctr = 0u32;
        // some aircraft sit exactly on the receiver (distance 0); some jump far away and back
        // (rejected fixes, cleared records, new distance maxima) while the operator looks at Stats
        let on_top = rng.chance(0.1) || (long_quiet && a < 2);
        let jumper = !on_top && rng.chance(0.25);
        let lat = if on_top { RX.0 } else { (RX.0 + rng.f64_range(-0.8, 0.8)).clamp(-89.9, 89.9) };
        let lon = if on_top { RX.1 } else { RX.1 + rng.f64_range(-0.8, 0.8) };
        while t < to && lines.len() < if deep { 400 } else { 150 } {
            ctr += 1;
            let me = match ctr % 6 {
                0 => wire::me_identification(4, 0, &format!("AC{a}X{}", ctr % 10)),
                1 | 2 => {
                    odd = !odd;
                    let jump = if jumper && (ctr / 6) % 2 == 1 { *rng.pick(&[1.5, 2.5, -2.0, 4.0]) } else { 0.0 };
                    let (yz, xz) = wire::cpr_encode(if on_top { lat } else { (lat + 0.0005 * ctr as f64).clamp(-89.95, 89.95) }, lon + jump, odd);
                    wire::me_airborne_position(11, 0, 0, wire::ac12_q(10_000 + 1000 * a as i32), false, odd, yz, xz)
                }
                // every velocity report with its own random vector: headings all round the compass
                // (a helicopter in the hover now and then: exactly 0 kt on both axes)
                _ if rng.chance(0.08) => wire::me_velocity(1, 0, wire::sub_ground_speed(rng.below(2) as u8, 1, rng.below(2) as u8, 1), 0, 0, 1 + rng.below(3) as u16, 0, 3),
                _ => wire::me_velocity(1 + rng.below(2) as u8, 0, wire::sub_ground_speed(rng.below(2) as u8, 1 + rng.below(1023) as u16, rng.below(2) as u8, 1 + rng.below(1023) as u16), rng.below(2) as u8, rng.below(2) as u8, rng.below(512) as u16, 0, 3),
            };
            lines.push((t, wire::hex(&wire::df17(5, addr, me))));
            t += 120_000 + rng.below(200_000);
        }
    }
    lines.sort();
    // each line in its own segment, at least 1 ms apart (benign segmentation)
    for i in 1..lines.len() {
        if lines[i].0 <= lines[i - 1].0 {
            lines[i].0 = lines[i - 1].0 + 1_000;
        }
    }
    // operator events; bursts put several into one 10 ms poll window
    let nev = if fault_free { 3 + rng.usize_below(10) } else { 5 + rng.usize_below(if deep { 250 } else { 76 }) };
    let mut events: Vec<KEvent> = vec![];
    let mut t = rng.below(200_000);
    let (mut w, mut h) = (cols, rows);
    let mut held: Option<(KEv, u32)> = None;
    for _ in 0..nev {
        // a held key / spinning wheel: the same event repeated 5..30 times in quick succession
        let ev = match held.take() {
            Some((ev, n)) => {
                if n > 1 {
                    held = Some((ev.clone(), n - 1));
                }
                ev
            }
            None => {
                let ev = gen_event(rng, w, h);
                if !fault_free && rng.chance(0.06) {
                    let rep = match rng.below(8) {
                        0 | 1 => key("c:-"),
                        2 | 3 => key("c:+"),
                        4 => key("Down"),
                        5 => key(*rng.pick(&["Up", "Left", "Right"])),
                        6 => KEv::Mouse { kind: "ScrollDown".into(), col: 30, row: 10 },
                        _ => KEv::Mouse { kind: "ScrollUp".into(), col: 30, row: 10 },
                    };
                    held = Some((rep, 5 + rng.below(26) as u32));
                }
                ev
            }
        };
        if let KEv::Resize { w: nw, h: nh } = &ev {
            if fault_free {
                continue;
            }
            w = *nw;
            h = *nh;
        }
        events.push(KEvent { at_us: t, ev });
        t += if rng.chance(0.5) { rng.below(3_000) } else { rng.below((2 * duration_us / nev as u64).max(1)) };
    }
    if !fault_free && rng.chance(0.06) {
        // an operator who keeps moving the mouse, drags, spins the wheel or holds a key: a paced
        // stream that never leaves the client's 10 ms poll window empty, for up to a few seconds
        let n = 40 + rng.usize_below(400);
        let mut tf = rng.below(duration_us);
        let kind = rng.below(6);
        let (mut c, mut r) = (rng.below(w.max(1) as u64) as u16, rng.below(h.max(1) as u64) as u16);
        for _ in 0..n {
            let ev = match kind {
                0 | 1 => {
                    c = (c + rng.below(3) as u16).min(w.saturating_sub(1));
                    r = if rng.coin() { r.saturating_sub(1) } else { (r + 1).min(h.saturating_sub(1)) };
                    KEv::Mouse { kind: if kind == 0 { "Moved".into() } else { "DragLeft".into() }, col: c, row: r }
                }
                2 => KEv::Mouse { kind: "ScrollDown".into(), col: c, row: r },
                3 => key("Down"),
                4 => key("c:+"),
                _ => key("Tab"),
            };
            events.push(KEvent { at_us: tf, ev });
            tf += 300 + rng.below(9_000);
        }
        events.sort_by_key(|e| e.at_us);
    }
    let ev_delay_us: Vec<u64> = if !fault_free && rng.chance(0.3) { (0..5).map(|_| *rng.pick(&[0u64, 0, 20, 200, 1_000, 3_000])).collect() } else { vec![] };
    let gpsd = if !fault_free && rng.chance(0.12) {
        let refused = rng.chance(0.2);
        let mut fixes = vec![];
        let mut t = rng.below(400_000);
        let (mut la, mut lo) = RX;
        for _ in 0..rng.below(12) {
            if rng.chance(0.12) {
                // a receiver that reports nonsense for a while (cold start, spoofing)
                la = *rng.pick(&[90.0, -90.0, 0.0, 89.9999, -89.9999, 45.0]);
                lo = *rng.pick(&[180.0, -180.0, 0.0, 179.9999, 360.0, -720.0]);
            } else {
                la = (la + rng.f64_range(-0.3, 0.3)).clamp(-89.9, 89.9);
                lo += rng.f64_range(-0.3, 0.3);
            }
            fixes.push((t, la, lo));
            t += 100_000 + rng.below(duration_us / 6 + 1);
        }
        Some((refused, fixes))
    } else {
        None
    };
    let airports = if !fault_free && rng.chance(0.14) {
        let kind = *rng.pick(&AIRPORT_KINDS);
        let tz = if rng.chance(0.4) { Some((*rng.pick(&["America/New_York", "America/Chicago,Europe/Amsterdam", "Nowhere/Else", "", ","])).to_string()) } else { None };
        Some((kind.to_string(), tz))
    } else {
        None
    };
    if airports.as_ref().map(|(k, _)| k == "valid").unwrap_or(false) && rng.chance(0.6) && !args.iter().any(|a| a == "--retry-tcp") {
        // the file may change while the server is away: make sure there is a reconnect to see it
        args.push("--retry-tcp".into());
    }
    let rust_log = if !fault_free && rng.chance(0.3) { Some((*rng.pick(&["trace", "debug", "info", "rsadsb_common=trace", "radar=trace,adsb_deku=debug", "warn", ""])).to_string()) } else { None };
    let connect_errnos: Vec<i32> = if !fault_free && rng.chance(0.3) { (0..3).map(|_| *rng.pick(&[0, 0, 101, 113, 100, 104, 103, 4, 13, 99])).collect() } else { vec![] };
    let gpsd_banner = if gpsd.is_some() && rng.chance(0.25) {
        Some((*rng.pick(&["SSH-2.0-OpenSSH_9.6", "HTTP/1.1 400 Bad Request", "", "{\"class\":\"VERSION\",\"release\":\"2.96\",\"rev\":\"2.96\",\"proto_major\":2,\"proto_minor\":9}", "{\"class\":\"DEVICES\",\"devices\":[]}", "\u{0}\u{1}\u{2}"])).to_string())
    } else {
        None
    };
    let winsz_ops: Vec<(u64, u16, u16)> = if !fault_free && rng.chance(0.15) {
        (0..1 + rng.below(4))
            .map(|_| {
                let (w, h) = if rng.chance(0.6) { (cols.saturating_sub(1 + rng.below(30) as u16).max(1), rows.saturating_sub(1 + rng.below(12) as u16).max(1)) } else { *rng.pick(&SIZES) };
                (rng.below(160), w, h)
            })
            .collect()
    } else {
        vec![]
    };
    let tz = if !fault_free && rng.chance(0.4) { Some((*rng.pick(&["EST5EDT", "PST8PDT", "<-03>3", "<+0530>-5:30", "JST-9", "America/New_York", "<-11>11", "<+13>-13", "UTC0"])).to_string()) } else { None };
    // a session left alone: nothing from the operator and nothing new from the server for one to
    // five minutes of simulated time (every timer the client may own fires in that time)
    let quit_at_us = if long_quiet {
        duration_us + *rng.pick(&[65_000_000u64, 125_000_000, 185_000_000, 310_000_000]) + rng.below(3_000_000)
    } else if rng.chance(0.15) {
        rng.below(60_000)
    } else {
        50_000 + rng.below(duration_us)
    };
    events.retain(|e| e.at_us < quit_at_us);
    if long_quiet {
        for _ in 0..3 + rng.below(5) {
            let t = duration_us + rng.below(quit_at_us - duration_us);
            events.push(KEvent { at_us: t, ev: key(*rng.pick(&["F1", "F2", "F2", "F3", "F4", "F5", "c:-", "c:+"])) });
        }
        events.sort_by_key(|e| e.at_us);
    }
    let refused_first = if !fault_free && rng.chance(0.2) { 1 + rng.below(8) as u32 } else { 0 };
    let proc_delay_us = if !fault_free && rng.chance(0.2) { (0..6).map(|_| *rng.pick(&[0u64, 0, 30_000, 200_000])).collect() } else { vec![] };
    let reconnect_at_us = if !fault_free && args.iter().any(|a| a == "--retry-tcp") && rng.chance(0.6) { Some(100_000 + rng.below(duration_us)) } else { None };
    let airports_valid = airports.as_ref().map(|(k, _)| k == "valid").unwrap_or(false);
    // with a usable airports file and --retry-tcp: the server goes away well before the operator quits
    let reconnect_at_us = if airports_valid && args.iter().any(|a| a == "--retry-tcp") && quit_at_us > 600_000 { Some(50_000 + rng.below(quit_at_us / 2)) } else { reconnect_at_us };
    let airports_spoiled = if airports_valid && reconnect_at_us.is_some() && rng.chance(0.7) { Some((*rng.pick(&["delete", "garble", "truncate"])).to_string()) } else { None };
    // long sessions. The coverage sweep makes radar itself quadratic (it redraws every cell every
    // frame), so it only runs in the thorough tier; the compass sweep is cheap enough for quick.
    // (VERIF_C17_MODE=sweep|compass forces a mode for every faulted run: debugging aid)
    let forced = std::env::var("VERIF_C17_MODE").unwrap_or_default();
    let sweep = if !fault_free && ((simcore::deep() && rng.chance(0.0006)) || forced == "sweep") { 34_000 + rng.usize_below(3_000) } else { 0 };
    let compass = if !fault_free && sweep == 0 && (rng.chance(0.003) || forced == "compass") { 18_000 } else { 0 };
    if sweep > 0 || compass > 0 {
        let total = if sweep > 0 { sweep as u64 } else { compass as u64 + 3 };
        let quit_at_us = total * 10_600 + 3_000_000;
        let mut events = vec![];
        let n = 12 + rng.below(12);
        for i in 0..n {
            let ev = if sweep > 0 {
                // stay off the Map tab: it clones and draws the whole 17000-point track every frame
                match rng.below(8) {
                    0 => key("F4"),
                    1 => key("c:-"),
                    2 => key("c:+"),
                    3 => key("F5"),
                    _ => key("F2"),
                }
            } else {
                match rng.below(8) {
                    0 => key("F2"),
                    1 => key("c:-"),
                    2 => key("c:+"),
                    _ => key("F1"),
                }
            };
            events.push(KEvent { at_us: 20_000 + i * quit_at_us / (n + 2), ev });
        }
        let args: Vec<String> = args.into_iter().filter(|a| !a.starts_with("--filter-time") && a != "--retry-tcp" && !a.starts_with("--max-range") && a != "--limit-parsing").collect();
        let mut args = args;
        args.retain(|a| a != "--disable-heading");
        return K17 { args, cols, rows, refused_first: 0, lines: vec![], events, quit_at_us, quit_ctrl_c: false, proc_delay_us: vec![], reconnect_at_us: None, invalid_cli: None, rx: (35.0, -80.0), sweep, compass, ev_delay_us: vec![], gpsd: None, airports: None, rust_log: None, connect_errnos: vec![], airports_spoiled: None, tz: None, gpsd_banner: None, winsz_ops: vec![] };
    }
    K17 { args, cols, rows, refused_first, lines, events, quit_at_us, quit_ctrl_c: rng.chance(0.3), proc_delay_us, reconnect_at_us, invalid_cli: None, rx: RX, sweep: 0, compass: 0, ev_delay_us, gpsd, airports, rust_log, connect_errnos, airports_spoiled, tz, gpsd_banner, winsz_ops }
}

pub fn compile(sc: &K17) -> KChild {
    let mut connects = vec![];
    let failing = |i: usize| match sc.connect_errnos.get(i % sc.connect_errnos.len().max(1)).copied().unwrap_or(0) {
        0 => KOutcome::Refuse,
        e => KOutcome::Fail(e),
    };
    for i in 0..sc.refused_first {
        connects.push(KConnect { outcome: failing(i as usize), segments: vec![], close_at_us: None, rst: false, eintr_reads: vec![] });
    }
    let seg = |t: u64, hex: &str| KSegment { at_us: t, hex: wire::hex(format!("*{hex};\n").as_bytes()), repeat: 0 };
    if sc.sweep > 0 || sc.compass > 0 {
        let addr = [0x4b, 0x17, 0x01];
        let mut segments = vec![];
        let mut text = String::new();
        let mut nseg = 0u64;
        let mut nlines = 0usize;
        let mut flush = |text: &mut String, nlines: &mut usize, force: bool| {
            if *nlines >= 250 || (force && *nlines > 0) {
                segments.push(KSegment { at_us: 30_000 + nseg * 1_000, hex: wire::hex(text.as_bytes()), repeat: 0 });
                text.clear();
                *nlines = 0;
                nseg += 1;
            }
        };
        if sc.sweep > 0 {
            for i in 0..sc.sweep {
                // a new 0.01 degree cell with every even/odd pair: 130 columns, then the next row
                let cell = i / 2;
                let lat = sc.rx.0 - 0.7 + 0.0101 * (cell / 130) as f64;
                let lon = sc.rx.1 - 0.7 + 0.0101 * (cell % 130) as f64;
                let (yz, xz) = wire::cpr_encode(lat, lon, i % 2 == 1);
                let f = wire::df17(5, addr, wire::me_airborne_position(11, 0, 0, wire::ac12_q(9_000), false, i % 2 == 1, yz, xz));
                text.push_str(&format!("*{};\n", wire::hex(&f)));
                nlines += 1;
                flush(&mut text, &mut nlines, false);
            }
        } else {
            for odd in [false, true] {
                let (yz, xz) = wire::cpr_encode(sc.rx.0 + 0.3, sc.rx.1 + 0.3, odd);
                let f = wire::df17(5, addr, wire::me_airborne_position(11, 0, 0, wire::ac12_q(9_000), false, odd, yz, xz));
                text.push_str(&format!("*{};\n", wire::hex(&f)));
                nlines += 1;
            }
            for i in 0..sc.compass {
                let th = (0.02 * i as f64).to_radians();
                let (e, n) = (1000.0 * th.sin(), 1000.0 * th.cos());
                let v = wire::df17(5, addr, wire::me_velocity(1, 0, wire::sub_ground_speed((e < 0.0) as u8, e.abs().round() as u16 + 1, (n < 0.0) as u8, n.abs().round() as u16 + 1), 0, 0, 5, 0, 3));
                text.push_str(&format!("*{};\n", wire::hex(&v)));
                nlines += 1;
                flush(&mut text, &mut nlines, false);
            }
        }
        flush(&mut text, &mut nlines, true);
        connects.push(KConnect { outcome: KOutcome::Accept, segments, close_at_us: None, rst: false, eintr_reads: vec![] });
        let mut events = sc.events.clone();
        events.sort_by_key(|e| e.at_us);
        events.push(KEvent { at_us: sc.quit_at_us.max(events.last().map(|e| e.at_us).unwrap_or(0)), ev: KEv::Key { code: "c:q".into(), ctrl: false, shift: false, alt: false } });
        return KChild { winsz_ops: vec![], outage: None, tz: sc.tz.clone(), file_ops: vec![], rust_log: sc.rust_log.clone(), gpsd: None, ev_delay_us: vec![], connects, events, proc_delay_us: vec![], coalesce: vec![false], step_budget: 60_000 + 8 * (sc.sweep + sc.compass) as u64 };
    }
    match sc.reconnect_at_us.filter(|_| sc.args.iter().any(|a| a == "--retry-tcp")) {
        Some(rc) => {
            connects.push(KConnect { outcome: KOutcome::Accept, segments: sc.lines.iter().filter(|(t, _)| *t < rc).map(|(t, h)| seg(*t, h)).collect(), close_at_us: Some(rc), rst: false, eintr_reads: vec![] });
            connects.push(KConnect { outcome: failing(sc.refused_first as usize), segments: vec![], close_at_us: None, rst: false, eintr_reads: vec![] });
            connects.push(KConnect { outcome: KOutcome::Accept, segments: sc.lines.iter().filter(|(t, _)| *t >= rc).map(|(t, h)| seg(*t - rc, h)).collect(), close_at_us: None, rst: false, eintr_reads: vec![] });
        }
        None => connects.push(KConnect { outcome: KOutcome::Accept, segments: sc.lines.iter().map(|(t, h)| seg(*t, h)).collect(), close_at_us: None, rst: false, eintr_reads: vec![] }),
    }
    let mut events = sc.events.clone();
    events.sort_by_key(|e| e.at_us);
    let q = if sc.quit_ctrl_c { KEv::Key { code: "c:c".into(), ctrl: true, shift: false, alt: false } } else { KEv::Key { code: "c:q".into(), ctrl: false, shift: false, alt: false } };
    events.push(KEvent { at_us: sc.quit_at_us.max(events.last().map(|e| e.at_us).unwrap_or(0)), ev: q });
    // three seam calls per idle iteration of 60 ms
    let file_ops: Vec<(usize, String, String)> = match (&sc.airports_spoiled, sc.reconnect_at_us.filter(|_| sc.args.iter().any(|a| a == "--retry-tcp"))) {
        (Some(what), Some(_)) => vec![(sc.refused_first as usize + 1, "airports.csv".to_string(), what.clone())],
        _ => vec![],
    };
    let gpsd = sc.gpsd.as_ref().map(|(refuse, fixes)| {
        let l = |at_us: u64, v: Value, fix: Option<(f64, f64)>| KGpsdLine { at_us, text: v.to_string(), fix };
        let mut lines = vec![
            l(0, json!({"class": "VERSION", "release": "3.25", "rev": "3.25", "proto_major": 3, "proto_minor": 15}), None),
            l(0, json!({"class": "DEVICES", "devices": [{"class": "DEVICE", "path": "/dev/ttyACM0"}]}), None),
            l(0, json!({"class": "WATCH", "enable": true, "json": true, "nmea": false}), None),
            l(0, json!({"class": "TPV", "device": "/dev/ttyACM0", "mode": 1}), None),
        ];
        for (i, (t, la, lo)) in fixes.iter().enumerate() {
            if i % 3 == 2 {
                lines.push(l(*t, json!({"class": "SKY", "device": "/dev/ttyACM0", "satellites": []}), None));
            }
            lines.push(l(*t, json!({"class": "TPV", "device": "/dev/ttyACM0", "mode": 3, "lat": la, "lon": lo}), Some((*la, *lo))));
        }
        if let Some(b) = &sc.gpsd_banner {
            lines[0] = KGpsdLine { at_us: 0, text: b.clone(), fix: None };
        }
        KGpsd { refuse: *refuse, lines }
    });
    KChild { winsz_ops: sc.winsz_ops.clone(), outage: None, tz: sc.tz.clone(), file_ops, rust_log: sc.rust_log.clone(), gpsd, ev_delay_us: sc.ev_delay_us.clone(), connects, events, proc_delay_us: sc.proc_delay_us.clone(), coalesce: vec![], step_budget: 40_000 + sc.quit_at_us / 12_000 }
}

pub fn is_quit_json(j: &str) -> bool {
    (j.contains("\"code\":\"c:q\"")) || (j.contains("\"code\":\"c:c\"") && j.contains("\"ctrl\":true") && j.contains("\"shift\":false") && j.contains("\"alt\":false"))
}

pub fn execute(sc: &K17) -> Outcome {
    let mut out = Outcome::default();
    let child = compile(sc);
    let mut h = Fnv::new();
    if let Some(cli) = &sc.invalid_cli {
        let run = run_child(&Spec { exe: &exe("radar"), args: cli.clone(), child: &child, tty: Some((80, 24)), wall_limit: Duration::from_secs(20) });
        h.str(&super::normalize_stderr(&run.stderr));
        h.u64(run.code.unwrap_or(-1) as u64);
        out.trace_hash = h.finish();
        out.fault("invalid_command_line_value");
        out.probe("invalid_command_line_judged");
        if let Some(loc) = panic_location(&run.stderr) {
            out.violate(format!("C17:invalid-option-value-panics:{loc}"), format!("radar {:?} panicked instead of reporting a usage error (exit status {:?})\nstderr:\n{}", cli, run.code, run.stderr.lines().take(6).collect::<Vec<_>>().join("\n")));
        } else if cli.iter().any(|a| a.starts_with("--log-folder=")) && run.code == Some(1) && run.stderr.to_lowercase().contains("error") {
            // an environment problem reported as an error
        } else if run.code != Some(2) {
            out.violate(format!("C17:invalid-option-value-exit-status:{:?}", run.code), format!("radar {:?} exited with {:?}, a usage error is exit status 2\nstderr:\n{}", cli, run.code, run.stderr.lines().take(6).collect::<Vec<_>>().join("\n")));
        } else if !run.stderr.to_lowercase().contains("usage") && !run.stderr.contains("error:") {
            out.violate("C17:invalid-option-value-no-usage-message", format!("radar {:?}: no usage/error message on stderr:\n{}", cli, run.stderr));
        }
        return out;
    }
    let mut args: Vec<String> = vec![format!("--lat={}", sc.rx.0), format!("--long={}", sc.rx.1), "--log-folder=logs".into()];
    args.extend(sc.args.iter().cloned());
    if sc.gpsd.is_some() {
        args.push("--gpsd".into());
    }
    if let Some((kind, tz)) = &sc.airports {
        args.push("--airports".into());
        args.push(prepare_airports(kind, sc.rx));
        if let Some(tz) = tz {
            args.push(format!("--airports-tz-filter={tz}"));
        }
        out.fault(if airports_is_usable(kind) { "airports_file" } else { "airports_file_unusable" });
    }
    let run = run_child(&Spec { exe: &exe("radar"), args, child: &child, tty: Some((sc.cols, sc.rows)), wall_limit: Duration::from_secs(if sc.sweep > 0 { 900 } else { 60 }) });
    let mut vt = Vt::new();
    vt.keep_from = (sc.sweep + sc.compass) as u64;
    vt.feed(&run.out);
    let log = parse_log(&run.seam_log);
    let p = Parsed { run, vt, log };
    if sc.sweep > 0 {
        out.fault("coverage_sweep_of_17000_cells");
        out.probe("long_session_state_accumulated");
    }
    if sc.compass > 0 {
        out.fault("compass_sweep_of_headings");
        out.probe("every_heading_drawn_on_the_map");
    }
    h.str(&p.run.seam_log);
    h.bytes(&p.run.out);
    h.u64(p.run.code.unwrap_or(-1) as u64);
    out.trace_hash = h.finish();
    out.steps = p.log.len() as u64;
    out.virtual_ns = p.log.last().map(LogEv::time_us).unwrap_or(0) * 1000;
    if std::env::var("VERIF_K_DUMP").is_ok() {
        println!("--- seam log\n{}", p.run.seam_log);
        println!("--- stderr\n{}", p.run.stderr);
        if let Some(f) = p.vt.frames.last() {
            println!("--- last frame {}\n{}", f.k, f.text().join("\n"));
        }
    }
    // coverage accounting from what actually happened
    let mut in_window = 0;
    let mut connected = false;
    let mut quit_seen_at: Option<usize> = None;
    let mut frames_after_quit = 0;
    let mut state = Fnv::new();
    let mut tab = 0u8;
    let mut window_start_us = 0u64;
    let mut flood_seen = false;
    for (i, l) in p.log.iter().enumerate() {
        match l {
            LogEv::Ev { json, .. } => {
                in_window += 1;
                if in_window == 1 {
                    window_start_us = l.time_us();
                }
                if in_window == 3 {
                    out.probe("three_events_in_one_poll_window");
                }
                if !flood_seen && l.time_us() - window_start_us > 250_000 {
                    flood_seen = true;
                    out.fault("event_flood_keeps_client_in_event_loop_over_250ms");
                }
                if quit_seen_at.is_none() && is_quit_json(json) {
                    quit_seen_at = Some(i);
                    if !connected {
                        out.probe("quit_during_connect_wait");
                    }
                }
                if json.contains("Resize") {
                    out.fault("terminal_resize");
                }
                if json.contains("Mouse") {
                    out.fault("mouse_event");
                    if json.contains("DragLeft") {
                        out.probe("drag_event");
                    }
                }
                for (k, code) in ["F1", "F2", "F3", "F4", "F5"].iter().enumerate() {
                    if json.contains(&format!("\"code\":\"{code}\"")) {
                        tab = k as u8;
                    }
                }
                if json.contains("\"code\":\"Enter\"") && tab == 2 {
                    out.probe("enter_on_airplanes_tab");
                }
                if json.contains("\"code\":\"Down\"") && tab == 2 {
                    out.probe("down_on_airplanes_tab");
                }
                // distinct-state measure: (tab, event kind, size class)
                let mut s = Fnv::new();
                s.u64(tab as u64);
                s.str(&json.chars().take(28).collect::<String>());
                s.u64(sc.cols as u64 / 40);
                s.u64(sc.rows as u64 / 10);
                s.u64(in_window.min(3) as u64);
                s.u64(sc.lines.len().min(3) as u64);
                out.states.push(s.finish());
                let _ = &mut state;
            }
            LogEv::Poll { hit: false, .. } => in_window = 0,
            LogEv::Connect { what, .. } => {
                if what.starts_with("accept") {
                    connected = true;
                } else if what.starts_with("fail") {
                    out.fault("connect_fails_otherwise_fired");
                } else {
                    out.fault("connect_refused_fired");
                }
            }
            LogEv::Frame { .. } => {
                if quit_seen_at.is_some() {
                    frames_after_quit += 1;
                }
            }
            _ => {}
        }
    }
    if p.log.iter().any(|l| matches!(l, LogEv::Gpsd { fix: Some(_), .. })) {
        out.fault("receiver_position_from_gpsd");
    }
    if p.run.seam_log.contains("GPSD connect refuse") {
        out.fault("gpsd_connection_refused");
    }
    if sc.gpsd_banner.is_some() && p.run.stderr.contains("panicked at") {
        out.fault("gpsd_port_answers_with_something_else_helper_thread_dies");
    }
    if sc.rust_log.is_some() {
        out.fault("diagnostics_switched_on");
    }
    if sc.tz.is_some() {
        out.fault("local_time_zone_not_utc");
    }
    if p.run.seam_log.contains(" WINSZ ") {
        out.fault("window_resized_between_two_size_queries");
    }
    if p.run.seam_log.contains(" FILE ") {
        out.fault("airports_file_spoiled_while_running");
    }
    if out.virtual_ns > 60_000_000_000 && sc.sweep == 0 && sc.compass == 0 {
        out.fault("session_left_alone_for_over_a_minute");
    }
    if sc.cols <= 12 || sc.rows <= 6 {
        out.fault("tiny_terminal");
    }
    if !sc.proc_delay_us.is_empty() {
        out.fault("slow_iteration");
    }
    if p.log.iter().filter(|l| matches!(l, LogEv::Connect { what, .. } if what.starts_with("accept"))).count() >= 2 {
        out.fault("server_drop_and_reconnect");
        out.probe("operator_events_after_reconnect");
    }
    if sc.args.iter().any(|a| a.starts_with("--filter-time=") && a != "--filter-time=120") && !sc.lines.is_empty() {
        out.probe("aircraft_expire_during_run");
    }
    if let Some((kind, _)) = sc.airports.as_ref().filter(|(k, _)| !airports_is_usable(k)) {
        // a file radar cannot use is an invalid command-line value: radar may refuse to start
        // (an error message, a non-zero status, the terminal as it was found) or go on without
        // the airports — it must not crash. Going on is judged like every other run below.
        let r = &p.run;
        if let Some(loc) = super::main_panic_location(&r.stderr) {
            out.violate(format!("C17:invalid-option-value-panics:{loc}"), format!("radar --airports <{kind}> panicked instead of reporting the unusable file (exit status {:?}, terminal restored: {:?}, mouse reporting left on: {:?})\nstderr:\n{}", r.code, r.termios_restored, p.vt.modes.mouse_modes_on, r.stderr.lines().take(6).collect::<Vec<_>>().join("\n")));
            return out;
        }
        if quit_seen_at.is_none() && !r.wall_timeout && matches!(r.code, Some(1) | Some(2)) && !r.stderr.trim().is_empty() && !p.log.iter().any(|l| matches!(l, LogEv::Budget | LogEv::Stop { .. })) {
            if r.termios_restored == Some(false) {
                out.violate("C17:terminal-not-restored:termios", format!("radar refused --airports <{kind}> but left the terminal modes changed: {}", r.termios_diff));
            } else if !p.vt.modes.cursor_visible {
                out.violate("C17:terminal-not-restored:cursor-hidden", format!("radar refused --airports <{kind}> but left the cursor hidden"));
            } else if !p.vt.modes.mouse_modes_on.is_empty() {
                out.violate("C17:terminal-not-restored:mouse-reporting-on", format!("radar refused --airports <{kind}> but left mouse reporting on: {:?}", p.vt.modes.mouse_modes_on));
            } else if p.vt.modes.alt_screen {
                out.violate("C17:terminal-not-restored:alternate-screen", format!("radar refused --airports <{kind}> but stayed in the alternate screen"));
            } else {
                out.probe("unusable_airports_file_reported");
            }
            return out;
        }
    }
    end_of_run_checks("C17", &p, &mut out, true);
    if out.violation.is_some() {
        return out;
    }
    match quit_seen_at {
        None => {
            out.violate("C17:exited-before-quit-was-requested", format!("radar exited with status {:?} although no quit request had been delivered yet (last seam calls: {})", p.run.code, p.run.seam_log.lines().rev().take(4).collect::<Vec<_>>().join(" | ")));
        }
        Some(_) => {
            out.probe("quit_consumed_and_clean_exit");
            if frames_after_quit > 10 {
                out.violate("C17:quit-not-honoured-promptly", format!("{frames_after_quit} frames were drawn after the quit request was consumed"));
            }
        }
    }
    out
}

pub fn shrink(sc: &K17) -> Vec<K17> {
    let mut c = vec![];
    if sc.invalid_cli.is_some() {
        return c;
    }
    for ev in drop_chunks(&sc.events) {
        c.push(K17 { events: ev, ..sc.clone() });
    }
    for l in drop_chunks(&sc.lines) {
        c.push(K17 { lines: l, ..sc.clone() });
    }
    // drop options one at a time ("--locations" drags its values along)
    let mut i = 0;
    while i < sc.args.len() {
        let mut a = sc.args.clone();
        if a[i] == "--locations" {
            let mut j = i + 1;
            while j < a.len() && !a[j].starts_with("--") {
                j += 1;
            }
            a.drain(i..j);
        } else if a[i].starts_with("--") {
            a.remove(i);
        } else {
            i += 1;
            continue;
        }
        c.push(K17 { args: a, ..sc.clone() });
        i += 1;
    }
    if (sc.cols, sc.rows) != (80, 24) {
        c.push(K17 { cols: 80, rows: 24, ..sc.clone() });
    }
    if sc.refused_first > 0 {
        c.push(K17 { refused_first: 0, ..sc.clone() });
    }
    if !sc.ev_delay_us.is_empty() {
        c.push(K17 { ev_delay_us: vec![], ..sc.clone() });
    }
    if sc.rust_log.is_some() {
        c.push(K17 { rust_log: None, ..sc.clone() });
    }
    if !sc.connect_errnos.is_empty() {
        c.push(K17 { connect_errnos: vec![], ..sc.clone() });
    }
    if sc.tz.is_some() {
        c.push(K17 { tz: None, ..sc.clone() });
    }
    if sc.gpsd_banner.is_some() {
        c.push(K17 { gpsd_banner: None, ..sc.clone() });
    }
    for v in drop_chunks(&sc.winsz_ops) {
        c.push(K17 { winsz_ops: v, ..sc.clone() });
    }
    if sc.airports_spoiled.is_some() {
        c.push(K17 { airports_spoiled: None, ..sc.clone() });
    }
    if let Some((kind, tz)) = &sc.airports {
        c.push(K17 { airports: None, ..sc.clone() });
        if tz.is_some() {
            c.push(K17 { airports: Some((kind.clone(), None)), ..sc.clone() });
        }
    }
    if let Some((refused, fixes)) = &sc.gpsd {
        c.push(K17 { gpsd: None, ..sc.clone() });
        for v in drop_chunks(fixes) {
            c.push(K17 { gpsd: Some((*refused, v)), ..sc.clone() });
        }
    }
    if !sc.proc_delay_us.is_empty() {
        c.push(K17 { proc_delay_us: vec![], ..sc.clone() });
    }
    if sc.quit_ctrl_c {
        c.push(K17 { quit_ctrl_c: false, ..sc.clone() });
    }
    if sc.reconnect_at_us.is_some() {
        c.push(K17 { reconnect_at_us: None, ..sc.clone() });
    }
    if sc.compass > 0 {
        c.push(K17 { compass: sc.compass / 2, ..sc.clone() });
        c.push(K17 { compass: sc.compass - sc.compass / 16, ..sc.clone() });
    }
    if sc.sweep > 0 {
        c.push(K17 { sweep: 0, ..sc.clone() });
        c.push(K17 { sweep: sc.sweep / 2, ..sc.clone() });
        c.push(K17 { sweep: sc.sweep - sc.sweep / 16, ..sc.clone() });
    }
    // earlier quit = shorter run
    let last_ev = sc.events.iter().map(|e| e.at_us).max().unwrap_or(0);
    if sc.quit_at_us > last_ev + 200_000 {
        c.push(K17 { quit_at_us: last_ev + 100_000, ..sc.clone() });
    }
    c
}

pub fn describe(sc: &K17) -> Value {
    json!({
        "receiver": sc.rx, "args": sc.args, "terminal": format!("{}x{}", sc.cols, sc.rows), "refused_connects_first": sc.refused_first,
        "traffic_lines": sc.lines.len(), "events_total": sc.events.len(),
        "first_events": sc.events.iter().take(12).map(|e| format!("t={}us {:?}", e.at_us, e.ev)).collect::<Vec<_>>(),
        "quit": format!("{} at {}us", if sc.quit_ctrl_c { "ctrl-c" } else { "q" }, sc.quit_at_us),
        "server_drops_and_reaccepts_at_us": sc.reconnect_at_us, "coverage_sweep_positions": sc.sweep, "compass_sweep_velocity_reports": sc.compass,
        "invalid_cli": sc.invalid_cli,
    })
}
