//! Engine K — client simulator (C16..C18): the real `radar` / `1090` `main()` in a child process,
//! every blocking point a seam on virtual time.

pub mod pty;
pub mod vt;

use std::path::PathBuf;
use std::time::Duration;

use simcore::kproto::*;

pub fn exe(name: &str) -> PathBuf {
    let me = std::env::current_exe().unwrap();
    me.parent().unwrap().join(name)
}

/// debugging aid: run one hand-written scenario and dump the frames
pub fn demo() {
    let me = wire::me_identification(4, 0, "UAL123");
    let f1 = wire::df17(5, [0xa0, 0, 1], me);
    let (yz, xz) = wire::cpr_encode(35.5, -80.0, false);
    let f2 = wire::df17(5, [0xa0, 0, 1], wire::me_airborne_position(11, 0, 0, wire::ac12_q(30000), false, false, yz, xz));
    let (yz, xz) = wire::cpr_encode(35.5, -80.0, true);
    let f3 = wire::df17(5, [0xa0, 0, 1], wire::me_airborne_position(11, 0, 0, wire::ac12_q(30000), false, true, yz, xz));
    let mut segs = vec![];
    for (i, f) in [f1, f2, f3].iter().enumerate() {
        let line = format!("*{};\n", wire::hex(f));
        segs.push(KSegment { at_us: 100_000 * (i as u64 + 1), hex: wire::hex(line.as_bytes()) });
    }
    let child = KChild {
        connects: vec![KConnect { outcome: KOutcome::Accept, segments: segs, close_at_us: None, rst: false, eintr_reads: vec![] }],
        events: vec![
            KEvent { at_us: 500_000, ev: KEv::Key { code: "F3".into(), ctrl: false, shift: false, alt: false } },
            KEvent { at_us: 700_000, ev: KEv::Key { code: "F4".into(), ctrl: false, shift: false, alt: false } },
            KEvent { at_us: 900_000, ev: KEv::Key { code: "F1".into(), ctrl: false, shift: false, alt: false } },
            KEvent { at_us: 1_200_000, ev: KEv::Key { code: "c:q".into(), ctrl: false, shift: false, alt: false } },
        ],
        proc_delay_us: vec![],
        coalesce: vec![],
        step_budget: 20_000,
    };
    let t0 = std::time::Instant::now();
    let args: Vec<String> = ["--lat=35.0", "--long=-80.0", "--log-folder=logs", "--locations", "(HOME,35.0,-80.0)", "(E,35.0,-79.6)"].iter().map(|s| s.to_string()).collect();
    let r = pty::run_child(&pty::Spec { exe: &exe("radar"), args, child: &child, tty: Some((120, 40)), wall_limit: Duration::from_secs(20) });
    println!("wall {:?} code {:?} sig {:?} termios_restored {:?} {}", t0.elapsed(), r.code, r.signal, r.termios_restored, r.termios_diff);
    println!("stderr: {}", r.stderr);
    let mut v = vt::Vt::new();
    v.feed(&r.out);
    println!("out bytes {} frames {} modes {:?}", r.out.len(), v.frames.len(), v.modes);
    println!("tail: {:?}", v.tail_text);
    let show: Vec<usize> = std::env::var("SHOW").ok().map(|s| s.split(',').filter_map(|x| x.parse().ok()).collect()).unwrap_or_default();
    for f in &v.frames {
        if show.contains(&(f.k as usize)) {
            println!("--- frame {} t={}us", f.k, f.vt_us);
            for l in f.text() {
                println!("{l}");
            }
        }
    }
    println!("{}", r.seam_log.lines().take(60).collect::<Vec<_>>().join("\n"));
    pty::cleanup_workdirs();
}
