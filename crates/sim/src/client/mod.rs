//! Engine K — client simulator (C16..C18): the real `radar` / `1090` `main()` in a child process,
//! every blocking point a seam on virtual time.

pub mod c16;
pub mod c17;
pub mod c18;
pub mod pty;
pub mod vt;

use std::path::PathBuf;
use std::time::Duration;

use simcore::kproto::*;

pub fn exe(name: &str) -> PathBuf {
    let me = std::env::current_exe().unwrap();
    me.parent().unwrap().join(name)
}

#[derive(Clone, Debug)]
pub enum LogEv {
    Connect { t: u64, what: String },
    Rd { t: u64, kind: String, segs: usize, total: usize },
    Poll { t: u64, hit: bool },
    Ev { t: u64, json: String },
    Frame { t: u64, k: u64, total: usize },
    Stop { t: u64, why: String },
    /// lines handed to radar's gpsd thread at an iteration boundary (with the fix they carry)
    Gpsd { t: u64, fix: Option<(f64, f64)> },
    Budget,
}

impl LogEv {
    pub fn time_us(&self) -> u64 {
        match self {
            LogEv::Connect { t, .. } | LogEv::Rd { t, .. } | LogEv::Poll { t, .. } | LogEv::Ev { t, .. } | LogEv::Frame { t, .. } | LogEv::Stop { t, .. } | LogEv::Gpsd { t, .. } => *t,
            LogEv::Budget => 0,
        }
    }
}

fn kv(parts: &[&str], key: &str) -> usize {
    parts.iter().find_map(|p| p.strip_prefix(key).and_then(|v| v.strip_prefix('='))).and_then(|v| v.parse().ok()).unwrap_or(0)
}

/// parse the seam log written by the child ("<seq> <now_us> <KIND> ...")
pub fn parse_log(text: &str) -> Vec<LogEv> {
    let mut v = vec![];
    for line in text.lines() {
        let parts: Vec<&str> = line.splitn(4, ' ').collect();
        if parts.len() < 3 {
            continue;
        }
        let t: u64 = parts[1].parse().unwrap_or(0);
        let rest: Vec<&str> = parts.get(3).map(|r| r.split(' ').collect()).unwrap_or_default();
        match parts[2] {
            "CONNECT" => v.push(LogEv::Connect { t, what: parts.get(3).unwrap_or(&"").to_string() }),
            "RD" => {
                let kind = if rest.first().map(|s| s.starts_with("n=")).unwrap_or(false) { "data".to_string() } else { rest.first().unwrap_or(&"").to_string() };
                v.push(LogEv::Rd { t, kind, segs: kv(&rest, "segs"), total: kv(&rest, "total") });
            }
            "POLL" => v.push(LogEv::Poll { t, hit: rest.first() == Some(&"1") }),
            "EV" => v.push(LogEv::Ev { t, json: parts.get(3).unwrap_or(&"").to_string() }),
            "FRAME" => v.push(LogEv::Frame { t, k: rest.first().and_then(|s| s.parse().ok()).unwrap_or(0), total: kv(&rest, "total") }),
            "STOP" => v.push(LogEv::Stop { t, why: parts.get(3).unwrap_or(&"").to_string() }),
            "GPSD" => {
                let fix = rest.iter().find_map(|p| p.strip_prefix("fix=")).and_then(|v| {
                    let mut it = v.split(',').map(|x| x.parse::<f64>().ok());
                    Some((it.next()??, it.next()??))
                });
                v.push(LogEv::Gpsd { t, fix });
            }
            "BUDGET" => v.push(LogEv::Budget),
            _ => {}
        }
    }
    v
}

/// "thread 'main' panicked at apps/src/radar/airplanes.rs:52:23:" -> "apps/src/radar/airplanes.rs:52"
pub fn panic_location(stderr: &str) -> Option<String> {
    let i = stderr.find("panicked at ")?;
    let rest = &stderr[i + 12..];
    let end = rest.find(|c: char| c == '\n' || c == ',').unwrap_or(rest.len());
    let mut loc = rest[..end].trim().trim_end_matches(':').to_string();
    // drop the column
    let parts: Vec<&str> = loc.rsplitn(2, ':').collect();
    if parts.len() == 2 && parts[0].chars().all(|c| c.is_ascii_digit()) {
        loc = parts[1].to_string();
    }
    Some(simcore::short_loc(&loc))
}

/// like `panic_location`, for a panic of the main thread only (a helper thread that dies leaves
/// its message on stderr as well; whether that matters is for the exit status to tell)
pub fn main_panic_location(stderr: &str) -> Option<String> {
    let mut rest = stderr;
    while let Some(i) = rest.find("panicked at ") {
        let line_start = rest[..i].rfind('\n').map(|k| k + 1).unwrap_or(0);
        if rest[line_start..i].starts_with("thread 'main'") {
            return panic_location(&rest[line_start..]);
        }
        rest = &rest[i + 12..];
    }
    None
}

/// stderr with the run-specific parts removed (newer std prints the OS thread id in the panic
/// line: "thread 'main' (12345) panicked at ...")
pub fn normalize_stderr(s: &str) -> String {
    let mut out = String::new();
    for line in s.lines() {
        if let (Some(a), Some(b)) = (line.find("' ("), line.find(") panicked at ")) {
            if line.starts_with("thread '") && a < b && line[a + 3..b].chars().all(|c| c.is_ascii_digit()) {
                out.push_str(&line[..a + 1]);
                out.push_str(&line[b + 1..]);
                out.push('\n');
                continue;
            }
        }
        out.push_str(line);
        out.push('\n');
    }
    out
}

pub struct ClientEngine {
    pub prop: &'static str,
}

#[derive(serde::Serialize, serde::Deserialize, Clone, Debug, PartialEq)]
pub enum KScenario {
    C16(c16::K16),
    C17(c17::K17),
    C18(c18::K18),
}

impl simcore::Engine for ClientEngine {
    type Sc = KScenario;
    fn engine_name(&self) -> &'static str {
        match self.prop {
            "C16" => "K16",
            "C17" => "K17",
            _ => "K18",
        }
    }
    fn property(&self) -> &'static str {
        self.prop
    }
    fn stream(&self) -> u64 {
        self.prop[1..].parse().unwrap_or(0)
    }
    fn generate(&self, rng: &mut simcore::Rng, fault_free: bool) -> KScenario {
        match self.prop {
            "C17" => KScenario::C17(c17::generate(rng, fault_free)),
            "C18" => KScenario::C18(c18::generate(rng, fault_free)),
            _ => KScenario::C16(c16::generate(rng, fault_free)),
        }
    }
    fn execute(&self, sc: &KScenario) -> simcore::Outcome {
        match sc {
            KScenario::C16(s) => c16::execute(s),
            KScenario::C17(s) => c17::execute(s),
            KScenario::C18(s) => c18::execute(s),
        }
    }
    fn shrink(&self, sc: &KScenario) -> Vec<KScenario> {
        match sc {
            KScenario::C16(s) => c16::shrink(s).into_iter().map(KScenario::C16).collect(),
            KScenario::C17(s) => c17::shrink(s).into_iter().map(KScenario::C17).collect(),
            KScenario::C18(s) => c18::shrink(s).into_iter().map(KScenario::C18).collect(),
        }
    }
    fn describe(&self, sc: &KScenario) -> serde_json::Value {
        match sc {
            KScenario::C16(s) => c16::describe(s),
            KScenario::C17(s) => c17::describe(s),
            KScenario::C18(s) => c18::describe(s),
        }
    }
    fn expected_probes(&self) -> Vec<&'static str> {
        match self.prop {
            "C16" => vec!["read_timeout_hit", "several_segments_in_one_read", "eof_seen_by_client", "airplanes_table_judged", "whole_feed_processed_at_end", "reconnect_with_aircraft_retained", "clean_exit_on_disconnect", "1090_output_equals_feed"],
            "C17" => vec!["three_events_in_one_poll_window", "quit_during_connect_wait", "drag_event", "enter_on_airplanes_tab", "down_on_airplanes_tab", "aircraft_expire_during_run", "quit_consumed_and_clean_exit", "invalid_command_line_judged", "operator_events_after_reconnect", "every_heading_drawn_on_the_map"],
            "C18" => vec!["airplanes_tab_judged", "stats_tab_judged", "map_tab_judged", "receiver_marker_at_centre", "aircraft_label_found", "aircraft_in_ne_quadrant", "aircraft_in_nw_quadrant", "aircraft_in_se_quadrant", "aircraft_in_sw_quadrant", "proportionality_judged", "details_filled", "details_blank", "row_selected_shifted_columns", "aircraft_expired_from_table", "map_compared_before_controls_and_after_reset", "table_unchanged_after_view_controls", "centred_aircraft_judged", "centred_aircraft_judged_after_8_zoom_ins", "judged_after_backlog_of_10000_lines", "table_longer_than_one_page", "aircraft_re_added_after_expiry"],
            _ => vec![],
        }
    }
    fn components(&self) -> serde_json::Value {
        serde_json::json!({
            "real": ["the whole radar / 1090 main() compiled from /repo/apps (shadow manifest, --cfg adsb_deku_verif)", "std BufReader/read_line", "hex", "adsb_deku", "rsadsb_common", "clap", "ratatui", "crossterm output half, raw mode, mouse capture", "tracing / tracing-appender", "a kernel pty as the terminal"],
            "simulated": ["TcpStream (connect outcomes, segmentation, arrival times vs the 50 ms read timeout, coalescing, EINTR, FIN/RST)", "crossterm::event::poll/read (scripted operator events, resizes via TIOCSWINSZ)", "time (virtual clock shared with rsadsb_common::verif_clock)", "per-iteration processing delay"],
            "stub": ["gpsd thread (never enabled)", "--airports CSV (never given)"]
        })
    }
    fn rule(&self) -> String {
        match self.prop {
            "C16" => "seed -> feed of 3..40 lines (4 % backlog bursts of 260..460 lines; thorough: up to 120) for 1..5 addresses, partly random 24-bit (well-formed DF17/DF18 identification/position/velocity and replies of every other downlink format DF0/4/5/11/16/20/21/24-31 with arbitrary payload, lower/upper/mixed-case hex; malformed classes: empty, ';', '*;', too short, odd digits, non-hex, non-ASCII, invalid UTF-8, all-zero, undecodable DF, truncated frame, garbage runs of 300..21000 bytes) -> segmentation (line aligned, many lines per segment, random mid-line cuts, one-byte segments, cuts before ';' / newline) with gaps from {0,1,49,50,51,60,200,5000} ms around the 50 ms read timeout, coalescing coins, processing delays, EINTR, FIN/RST at line boundaries or mid-line, refused/timed-out connects and several sessions with --retry-tcp; client = radar (pty, F3 pressed periodically, q at the end) or 1090 (stdout captured). Every 10th run has all fault kinds off. Non-trivial = at least one fault fired and one probe reached; distinct = fingerprint of seam log + terminal output.".to_string(),
            "C17" => "seed -> option set (touchscreen, the five disable flags, limit-parsing, retry-tcp, max-range, scale, filter-time 0..120 s, 0..3 locations) x terminal size {1x1 .. 300x100} x benign traffic of 0..6 aircraft that expire during the run x 5..80 operator events over the full alphabet (function keys, Tab, arrows, Enter, toggles, zoom, keys with modifiers, mouse down/up/drag/scroll/move at tab hit-boxes, touchscreen buttons, row 0 and beyond the screen, resizes, focus, paste), several per poll window, held keys / spinning wheel (5..30 repeats), refused connects first, server drop and re-accept under --retry-tcp, slow iterations, non-ASCII location names; quit (q or ctrl-c) at a random point incl. during the connect wait; receivers incl. pole / antimeridian / equator, extreme location coordinates, aircraft on top of the receiver, random velocity vectors; 0.3 % compass-sweep runs (18000 headings in 0.02 degree steps), thorough tier: coverage-sweep runs (17000 cells). 8 % of the faulted runs instead start radar with one invalid option value and look only at the exit status. Non-trivial = at least one fault kind fired (resize, mouse, tiny terminal, refused connect, slow iteration, invalid value) and one probe reached; distinct = fingerprint of seam log + terminal output.".to_string(),
            "C18" => "seed -> receiver in one of eight places (all four hemispheres, next to the equator / prime meridian), terminal 110..200 x 40..60, filter-time {2,3,1000} s, location markers at the receiver and at offsets d / 2d on each axis, 1..6 aircraft placed in all four quadrants at distinct latitude offsets (identification, position pairs, velocity; one line per segment >= 120 ms apart, some stop early and expire, some come back after expiry), label toggles; 3 % 'many' runs (more aircraft than one table page), 0.6 % long-count runs (10000-line backlog of one aircraft). Phase A: tab switches and toggles interleaved with the traffic; phase B (traffic over): zoom / pan / drag / scroll / centre-on-selected-aircraft (+ held zoom key) sequence, reset, then Airplanes, Stats and Map again. Reference = real tracker driven at exactly the virtual times of the child's seam log (every RD and every prune). Non-trivial = at least one fault kind fired (expiry while displayed, view-control sequence) and one probe reached.".to_string(),
            _ => String::new(),
        }
    }
    fn assumptions(&self) -> Vec<String> {
        vec![
            "the seam implementations model what std::net / crossterm do at those calls (WouldBlock on read timeout, Ok(0) after FIN, ConnectionReset once after RST)".into(),
            "the reference uses the real decoder and tracker as 'what an ideal line splitter would have produced'".into(),
            "lines whose status the feed format leaves open (no leading '*' but valid hex, CR LF endings, a cut-off line that already contains ';') are not generated".into(),
        ]
    }
    fn state_measure(&self) -> &'static str {
        match self.prop {
            "C17" => "distinct (current tab, event kind, terminal size class, position in poll window, traffic class) tuples",
            _ => "distinct (seam log, terminal output) fingerprints",
        }
    }
}

/// debugging aid: run one hand-written scenario and dump the frames
pub fn demo() {
    let me = wire::me_identification(4, 0, "UAL123");
    let f1 = wire::df17(5, [0xa0, 0, 1], me);
    let (yz, xz) = wire::cpr_encode(35.5, -80.0, false);
    let f2 = wire::df17(5, [0xa0, 0, 1], wire::me_airborne_position(11, 0, 0, wire::ac12_q(30000), false, false, yz, xz));
    let (yz, xz) = wire::cpr_encode(35.5, -80.0, true);
    let f3 = wire::df17(5, [0xa0, 0, 1], wire::me_airborne_position(11, 0, 0, wire::ac12_q(30000), false, true, yz, xz));
    let mut segs = vec![];
    for (i, f) in [f1, f2, f3].iter().enumerate() {
        let line = format!("*{};\n", wire::hex(f));
        segs.push(KSegment { at_us: 100_000 * (i as u64 + 1), hex: wire::hex(line.as_bytes()), repeat: 0 });
    }
    let child = KChild {
        gpsd: None,
        rust_log: None,
        file_ops: vec![],
        tz: None,
        outage: None,
        winsz_ops: vec![],
        ev_delay_us: vec![],
        connects: vec![KConnect { outcome: KOutcome::Accept, segments: segs, close_at_us: None, rst: false, eintr_reads: vec![] }],
        events: vec![
            KEvent { at_us: 500_000, ev: KEv::Key { code: "F3".into(), ctrl: false, shift: false, alt: false } },
            KEvent { at_us: 700_000, ev: KEv::Key { code: "F4".into(), ctrl: false, shift: false, alt: false } },
            KEvent { at_us: 900_000, ev: KEv::Key { code: "F1".into(), ctrl: false, shift: false, alt: false } },
            KEvent { at_us: 1_200_000, ev: KEv::Key { code: "c:q".into(), ctrl: false, shift: false, alt: false } },
        ],
        proc_delay_us: vec![],
        coalesce: vec![],
        step_budget: 20_000,
    };
    let t0 = std::time::Instant::now();
    let args: Vec<String> = ["--lat=35.0", "--long=-80.0", "--log-folder=logs", "--locations", "(HOME,35.0,-80.0)", "(E,35.0,-79.6)"].iter().map(|s| s.to_string()).collect();
    let r = pty::run_child(&pty::Spec { exe: &exe("radar"), args, child: &child, tty: Some((120, 40)), wall_limit: Duration::from_secs(20) });
    println!("wall {:?} code {:?} sig {:?} termios_restored {:?} {}", t0.elapsed(), r.code, r.signal, r.termios_restored, r.termios_diff);
    println!("stderr: {}", r.stderr);
    let mut v = vt::Vt::new();
    v.feed(&r.out);
    println!("out bytes {} frames {} modes {:?}", r.out.len(), v.frames.len(), v.modes);
    println!("tail: {:?}", v.tail_text);
    let show: Vec<usize> = std::env::var("SHOW").ok().map(|s| s.split(',').filter_map(|x| x.parse().ok()).collect()).unwrap_or_default();
    for f in &v.frames {
        if show.contains(&(f.k as usize)) {
            println!("--- frame {} t={}us", f.k, f.vt_us);
            for l in f.text() {
                println!("{l}");
            }
        }
    }
    println!("{}", r.seam_log.lines().take(60).collect::<Vec<_>>().join("\n"));
    pty::cleanup_workdirs();
}
